#!/usr/bin/env python3
"""copy confirmed seeded changes from the sub-agents' scratch worktrees into /verif/seeded/<id>/"""
import json, os, re, shutil, sys, glob
detect = json.load(open('/tmp/seeded_detect.json')) if os.path.exists('/tmp/seeded_detect.json') else {}
for d in sorted(glob.glob('/tmp/wt-C*/SEEDED/*') + glob.glob('/tmp/wt2-C*/SEEDED/*') + glob.glob('/tmp/wt3-C*/SEEDED/*') + glob.glob('/tmp/wt4-C*/SEEDED/*') + glob.glob('/tmp/wt5-C*/SEEDED/*') + glob.glob('/tmp/wt6-C*/SEEDED/*')):
    rnd = 6 if '/wt6-' in d else 5 if '/wt5-' in d else 4 if '/wt4-' in d else (3 if '/wt3-' in d else (2 if '/wt2-' in d else 1))
    r2 = rnd > 1
    prop = re.search(r'wt[23456]?-(C\d+)', d).group(1); v = os.path.basename(d)
    sid = '%s-%s%s' % (prop, {1: '', 2: 'r2', 3: 'r3', 4: 'r4', 5: 'r5', 6: 'r6'}[rnd], v)
    conf = ''
    cf = {1: '/tmp/confirm-%s.txt', 2: '/tmp/confirm2-%s.txt', 3: '/tmp/confirm3-%s.txt', 4: '/tmp/confirm4-%s.txt', 5: '/tmp/confirm5-%s.txt', 6: '/tmp/confirm6-%s.txt'}[rnd] % prop
    if os.path.exists(cf):
        for l in open(cf):
            if l.startswith('CONFIRM %s/%s ' % (prop, v)): conf = l.strip()
    if 'patched-demo: test result: FAILED' not in conf or 'clean-demo: test result: ok' not in conf or 'lib: test result: ok. 167 passed' not in conf:
        print('NOT CONFIRMED', sid, conf[:100]); continue
    out = '/verif/seeded/%s' % sid
    os.makedirs(out, exist_ok=True)
    shutil.copy(d + '/patch.diff', out + '/patch.diff')
    shutil.copy(d + '/seeded_demo.rs', out + '/seeded_demo.rs')
    try:
        meta = json.load(open(d + '/meta.json'))
    except Exception as e:
        meta = {'property': prop, 'summary': 'meta.json of the sub-agent was not valid JSON'}
    meta['id'] = sid
    meta['breaks_property'] = prop
    meta['origin'] = 'fresh sub-agent given only the property text and a scratch worktree of /repo (nothing from /verif)'
    meta['confirmed_by_me'] = {
        'where': 'scratch worktree /tmp/%s-%s (outside /repo and /verif), removed afterwards' % ({1: 'wt', 2: 'wt2', 3: 'wt3', 4: 'wt4', 5: 'wt5', 6: 'wt6'}[rnd], prop),
        'ran': ['cargo test --offline --test seeded_demo   (clean tree: passes)', 'git apply patch.diff', 'cargo test --offline --lib   (167 passed)', 'cargo test --offline --doc   (9 passed)', 'cargo test --offline --test seeded_demo   (fails)', 'git checkout -- src'],
        'result': conf.split('|', 1)[1].strip() if '|' in conf else conf,
    }
    if sid in detect:
        meta['detection'] = detect[sid]
    json.dump(meta, open(out + '/meta.json', 'w'), indent=1)
    print('collected', sid)
