#!/bin/bash
# usage: confirm_seeded.sh <Cxx> <variant>  -- confirm in the agent's scratch worktree that the seeded change
# (1) keeps the existing suite green, (2) makes the demo fail, (3) demo passes without it. Prints one CONFIRM line.
P=$1; V=$2; PFX=${3:-wt}; WT=/tmp/$PFX-$P; S=$WT/SEEDED/$V
cd $WT || exit 2
git checkout -q -- src; mkdir -p tests; cp $S/seeded_demo.rs tests/seeded_demo.rs
clean=$(cargo test --offline $FEATURES --test seeded_demo 2>&1 | grep -E "^test result" | tail -1)
if ! git apply --check $S/patch.diff 2>/dev/null; then echo "CONFIRM $P/$V patch-does-not-apply"; exit 0; fi
git apply $S/patch.diff
lib=$(cargo test --offline --lib 2>&1 | grep -E "^test result" | tail -1)
doc=$(cargo test --offline --doc 2>&1 | grep -E "^test result" | tail -1)
demo=$(cargo test --offline $FEATURES --test seeded_demo 2>&1 | grep -E "^test result" | tail -1)
git checkout -q -- src
echo "CONFIRM $P/$V | clean-demo: $clean | lib: $lib | doc: $doc | patched-demo: $demo" | sed 's/; 0 ignored; 0 measured; 0 filtered out//g; s/finished in [0-9.]*s//g'
