#!/bin/bash
# usage: run_benign.sh [id-glob] [props...]  -- for every kept property-preserving change /verif/benign/<id>/patch.diff:
# apply it in ONE scratch worktree of /repo (outside /repo and /verif, removed at the end), run the quick checks
# against that worktree (VERIF_REPO: no evidence is written), undo. A VIOLATION here is a false alarm of a monitor.
GLOB=${1:-*}; shift
PROPS=${@:-C01 C02 C03 C04 C05 C06 C07 C08 C09 C10 C11 C12 C13 C14 C15 C16 C17 C18 C19}
WT=/tmp/wtb-run
[ -d $WT ] || git -C /repo worktree add --detach $WT HEAD -q
for d in /verif/benign/$GLOB/; do
  id=$(basename $d)
  [ -f $d/patch.diff ] || continue
  (cd $WT && git checkout -q -- . && git clean -fdq && git apply $d/patch.diff) || { echo "BENIGN $id patch-does-not-apply"; continue; }
  for prop in $PROPS; do
    out=$(cd /verif && VERIF_NO_MIRI=1 VERIF_REPO=$WT ./check run $prop --tier quick 2>&1 | grep -v "^KNOWN-FINDING: property=C10 key")
    first=$(echo "$out" | grep -m1 -A1 "^VIOLATION" | tr '\n' ' ' | cut -c1-300)
    inc=$(echo "$out" | grep -m1 "^INCONCLUSIVE" | cut -c1-200)
    ok=$(echo "$out" | grep -c "^OK ")
    echo "BENIGN $id prop=$prop ok=$ok ${first}${inc}"
  done
done
(cd $WT && git checkout -q -- .)
git -C /repo worktree remove --force $WT
