#!/bin/bash
# usage: recheck_seeded_alt.sh <seed> [id-glob]  -- like recheck_seeded.sh but in a scratch worktree (VERIF_REPO),
# at another seed, so that /repo stays untouched; finds catches that depend on the luck of one seed
SEED=$1; WT=/tmp/wtr-$SEED
cd /verif
[ -d $WT ] || git -C /repo worktree add --detach $WT HEAD -q
for d in seeded/${2:-C*}; do
  id=$(basename $d)
  prop=$(python3 -c "import json;c=json.load(open('$d/meta.json'))['detection'].get('caught_by');print(c.split()[2] if c else '')")
  [ -z "$prop" ] && { echo "SKIP $id (recorded as not caught)"; continue; }
  (cd $WT && git checkout -q -- . && git apply /verif/$d/patch.diff) || { echo "NOAPPLY $id"; continue; }
  out=$(VERIF_NO_MIRI=1 VERIF_SEED=$SEED VERIF_REPO=$WT ./check run $prop --tier quick 2>&1)
  if echo "$out" | grep -q "^VIOLATION"; then echo "CAUGHT $id $prop seed=$SEED $(echo "$out" | grep -m1 -o 'check=[a-z_@.0-9:]*')"; else echo "MISSED $id $prop seed=$SEED :: $(echo "$out" | tail -1 | cut -c1-160)"; fi
done
(cd $WT && git checkout -q -- .)
git -C /repo worktree remove --force $WT
