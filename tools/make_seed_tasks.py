#!/usr/bin/env python3
"""usage: make_seed_tasks.py <round> [Cxx ...]  -- create scratch worktrees /tmp/wt<round>-Cxx of /repo and write the
TASK.md that a fresh sub-agent gets (property text only, ideas of earlier rounds to avoid, nothing from /verif)."""
import json, glob, collections, subprocess, sys, os
rnd = sys.argv[1]; only = sys.argv[2:]
VARIANTS = {}
VARIANTS['4'] = '''Variant `a`: the defect should live in, or only be observable through, a **less travelled part of the public API
or configuration space** that still falls under the property as stated - e.g. one particular entry point among
several that promise the same thing (`DataMatrix::encode`, `encode_str`, `encode_gs1`, `DataMatrixBuilder` with
its options in some order, `data::encode_data`, `data::encodation_plan`, `data::decode_data`, `data::decode_str`,
`DataMatrix::decode`, `errorcode::encode_error` / `decode_error`, `MatrixMap` with a custom `Bit` type, `Bitmap`
functions, `SymbolList` constructors / filters / `extend`), a DMRE or rectangular size, a multi-block size, an
option combination, an unusual but legal symbol list.
Variant `b`: the defect should be in **shared helper or table code away from the obvious place** (arithmetic
helpers, size tables, cost helpers, character classification, iterators, conversions), so that it shows only for
a specific class of values.
'''
VARIANTS['6'] = '''Variant `a`: an **interaction** defect: it needs two features at once that are each fine alone - e.g. a prefix codeword
(FNC1, Macro, ECI) together with a capacity boundary or a restricted mode set; a symbol list built in an unusual way
together with a specific size; a builder option order together with a specific input class; Base256 together with
another mode around the one-/two-byte length form; a rectangular or DMRE symbol together with a multi-region layout.
Variant `b`: a defect in **rarely executed fallback or error-handling code** (early refusal checks, capacity limits,
fallbacks for empty or single-element lists, branches for inputs that almost do not fit, clean-up after a failed
attempt, retry paths) that turns a correct refusal into a wrong success, a wrong success into a refusal, or picks a
wrong alternative.
'''
VARIANTS['5'] = '''Variant `a`: a **size- or magnitude-dependent** defect: it shows only for the largest symbols or longest inputs, for
counts or positions beyond 255 / 65535 / a table length, at the boundary between the one- and two-byte form of
some field, for codeword positions where a position-dependent formula (randomisation, interleaving, wrap-around)
behaves differently, for a particular number of interleaved blocks or regions, or for a DMRE-only geometry.
Variant `b`: **two cooperating edits** that each look fine alone and that keep the crate self-consistent (so that
simple self round trips still pass) while the property as stated is broken - e.g. encoder and decoder changed
consistently but away from the standard, writer and reader of a pattern changed together, a table and its
consumer, planner and encoder changed together so that they still agree with each other, a cached value and the
code that invalidates it.
'''

prev = collections.defaultdict(list)
for d in sorted(glob.glob('/verif/seeded/*/meta.json')):
    m = json.load(open(d))
    prev[m['breaks_property']].append((m.get('summary', '') or '').replace('\n', ' ')[:220])
base = '''# Task: seed a realistic defect into a Rust crate (mutation testing of a verification framework, round {rnd})

You work ONLY inside this directory: {wt} — a scratch git worktree of the Rust crate
`datamatrix` (jannschu/datamatrix-rs, Data Matrix ECC 200 encoder/decoder, `#![no_std]`).
Do not read, list or modify anything under /verif or /repo, and do not use git commands that
touch other worktrees (in particular do not use `git stash`; use `git diff -- src > file` and
`git checkout -- src` instead). There is no network: always pass `--offline` to cargo
(e.g. `cargo test --workspace --offline`). The crate builds and its test-suite (167 unit tests +
doc tests) passes in this worktree as it stands.

## The property

**{title}**

{statement}

## What to deliver

Deliver TWO different source changes to the crate (files under `src/`), as variants `a` and `b`, each of which
**breaks this property** while

1. the crate still compiles (also with `--features verif_hooks`, an optional instrumentation feature: leave
   `src/verif.rs` and the hook calls alone), and
2. the complete existing test-suite still passes unchanged (`cargo test --workspace --offline`;
   you may not edit, delete or add `#[ignore]` to existing tests), and
3. the change looks like something that could realistically slip into the code base in a normal commit: an
   off-by-one, a wrong boundary, a swapped argument, a dropped special case, a "harmless"
   refactoring or optimisation that is subtly wrong, a wrong table entry, a copy-and-paste slip, a wrong
   default, state that is not reset, a changed iteration order, a condition that is inverted for one branch,
   two cooperating sites that each look fine alone. No `if input == magic` back-doors, no randomness, no time
   dependence.

{variants}
Both should need something reasonably specific to manifest (they must not be exposed by the existing tests), but
they need not be astronomically rare.

Earlier rounds already used the following ideas for this property — **do not repeat them or close variants of
them; find different mechanisms in different places**:
{prev}

For each variant write a **demonstration**: a Rust integration test `seeded_demo.rs` (to be placed at
`tests/seeded_demo.rs`) that uses only the crate's public API, **fails with your change and passes without it**.
Verify both directions yourself:
  - with the change applied: `cargo test --offline --test seeded_demo` fails, while
    `cargo test --offline --lib` (167 tests) and `cargo test --offline --doc` still pass;
  - with `git checkout -- src` (keep the demo): the demo passes.

## Output format (exactly)

Create the directories `{wt}/SEEDED/a/` and `{wt}/SEEDED/b/`, each containing:
  - `patch.diff`  — `git diff -- src` of that change only (apply-able with `git apply` on a clean worktree)
  - `seeded_demo.rs` — the demonstration test file
  - `meta.json` — {{"property": "{pid}", "summary": "<one sentence: what was changed, file:function>",
      "needs_to_manifest": "<what specific input/configuration is needed>", "why_rare": "<estimate>",
      "why_tests_still_pass": "<one sentence>", "commands_run": ["..."], "demo_fails_with_patch": true,
      "demo_passes_without_patch": true, "suite_passes_with_patch": true}}
Leave the worktree clean of your src change at the end (`git checkout -- src`, remove tests/seeded_demo.rs), keep
SEEDED/. Finish with a short plain-text report of what you did.
'''
for l in open('/verif/properties.jsonl'):
    p = json.loads(l)
    if only and p['id'] not in only:
        continue
    wt = '/tmp/wt%s-%s' % (rnd, p['id'])
    if not os.path.isdir(wt):
        subprocess.check_call(['git', '-C', '/repo', 'worktree', 'add', '-q', '--detach', wt, 'HEAD'])
    pv = "\n".join("  - " + x for x in prev[p['id']]) or "  (none)"
    open(wt + '/TASK.md', 'w').write(base.format(rnd=rnd, wt=wt, title=p['title'], statement=p['statement'], pid=p['id'], prev=pv, variants=VARIANTS.get(rnd, VARIANTS['4'])))
    print('task', wt)
