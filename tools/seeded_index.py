#!/usr/bin/env python3
"""regenerate /verif/seeded/INDEX.md from the meta.json files"""
import json, glob, os, re
head = open('/verif/seeded/INDEX.md').read().split('| id | change |')[0]
rows = []
def short(x, n):
    x = re.sub(r'\s+', ' ', str(x or '')).replace('|', '\\|')
    return x if len(x) <= n else x[:n].rstrip() + ' ...'
def order(p):
    b = os.path.basename(p); m = re.match(r'(C\d+)-(r(\d))?([a-z])', b)
    return (m.group(1), int(m.group(3) or 1), m.group(4))
missed = pre = notc = 0
for d in sorted(glob.glob('/verif/seeded/C*'), key=order):
    m = json.load(open(d + '/meta.json'))
    det = m.get('detection', {})
    change = m.get('summary') or m.get('change') or m.get('description') or ''
    needs = m.get('needs') or m.get('needs_to_manifest') or m.get('trigger') or m.get('manifests_when') or m.get('requires') or ''
    if det.get('not_caught'):
        c = '**not caught** (see meta.json: indistinguishable from pinned-tree behaviour)'
        notc += 1
    else:
        c = '%s: `%s`' % (det.get('caught_by', '?').split()[2] if det.get('caught_by') else '?', det.get('first_violated_check', '?'))
    if det.get('missed_at_first') and not det.get('not_caught'):
        if det.get('miss_observed_by_run'):
            c += ' (missed by a run first; strengthened)'; missed += 1
        else:
            c += ' (strengthened before the first run)'; pre += 1
    rows.append('| %s | %s | %s | %s |' % (m['id'], short(change, 220), short(needs, 160), c))
out = head + '| id | change | needs | caught by (quick tier): first violated check |\n|---|---|---|---|\n' + '\n'.join(rows) + '\n'
out += '\n%d changes; %d were missed by a run of the checks as they were and led to a strengthening; %d more led to a strengthening after reading the report, before the first run. %d is not caught (C19-r4b, explained in its meta.json and in DESIGN.md); all others are caught by the quick tier now.\n' % (len(rows), missed, pre, notc)
open('/verif/seeded/INDEX.md', 'w').write(out)
print(len(rows), missed, pre)
