#!/bin/bash
# usage: recheck_seeded.sh [id-glob]  -- re-apply every kept seeded change to /repo, run the quick check that is
# recorded as catching it, undo. Prints one line per change; "MISSED" if the check stays silent.
cd /verif
for d in seeded/${1:-C*}; do
  id=$(basename $d)
  prop=$(python3 -c "import json;c=json.load(open('$d/meta.json'))['detection'].get('caught_by');print(c.split()[2] if c else '')")
  [ -z "$prop" ] && { echo "SKIP $id (recorded as not caught)"; continue; }
  r=$(tools/try_patch.sh /verif/$d/patch.diff $prop 2>&1 | grep RESULT)
  if echo "$r" | grep -q "exit=1 VIOLATION"; then echo "CAUGHT $id $prop $(echo $r | grep -o 'check=[a-z_@.0-9:]*')"; else echo "MISSED $id $prop :: $r"; fi
done
