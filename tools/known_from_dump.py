#!/usr/bin/env python3
"""usage: known_from_dump.py <dump from VERIF_DUMP_VIOLATIONS> -- print `known:` lines (exact keys) for C10 cases that are
not yet listed in KNOWN_FINDINGS.txt. Development-time tool: the file is never written at run time."""
import json, re, sys
have = set(re.findall(r'key=([0-9a-f]{16})', open('/verif/KNOWN_FINDINGS.txt').read()))
seen = set()
def printable(h):
    b = bytes.fromhex(h)
    return ''.join(chr(c) if 32 <= c < 127 and chr(c) not in '\\' else '\\x%02x' % c for c in b)
for l in open(sys.argv[1]):
    d = json.loads(l)
    if d['key'] in have or d['key'] in seen or d['check'] != 'smaller_symbol_possible':
        continue
    seen.add(d['key'])
    f = dict(kv.split('=', 1) for kv in d['case'].split(';')[1:])
    m = re.search(r'fits the listed capacity (\d+): .*runs=\[([^\]]*)\].*the encoder chose capacity (\d+)', d['detail'])
    cap, runs, enc = (m.group(1), m.group(2).replace(' ', ','), m.group(3)) if m else ('?', '?', '?')
    print('known: property=C10 key=%s planner-heuristic: input=%s list=%s modes=%s fits_capacity=%s via=[%s] encoder=%s' % (d['key'], printable(f.get('input', '')), f.get('list', ''), f.get('mask', ''), cap, runs, enc))
