#!/usr/bin/env python3
"""append the cases of replay files to regressions/<property>.cases (deduplicated)"""
import json, os, sys
root = os.path.dirname(os.path.dirname(os.path.abspath(__file__)))
for f in sys.argv[1:]:
    d = json.load(open(f))
    path = os.path.join(root, "regressions", d["property"] + ".cases")
    have = set(open(path).read().splitlines()) if os.path.exists(path) else set()
    if d["case"] not in have:
        with open(path, "a") as out:
            out.write(d["case"] + "\n")
        print("pinned", d["property"], d["check"], d["case"][:70])
