#!/bin/bash
# usage: run_mutants.sh [name-prefix]   -- for every own mutant: (1) does the unit-test suite stay green? (2) do the expected checks fire?
cd /verif
WT=/tmp/mut-wt
if [ ! -d $WT ]; then git -C /repo worktree add -q --detach $WT HEAD; fi
git -C $WT checkout -q --detach $(git -C /repo rev-parse HEAD) 2>/dev/null
mkdir -p /verif/mutants/results
while IFS=$'\t' read -r name props; do
  case "$name" in $1*) ;; *) continue;; esac
  git -C $WT checkout -q -- . 
  if ! git -C $WT apply /verif/mutants/$name.diff 2>/dev/null; then echo "$name: does not apply"; continue; fi
  if (cd $WT && timeout 240 cargo test --offline --lib -q >/tmp/mut-test.log 2>&1); then suite=pass; else suite=FAIL_OR_TIMEOUT; fi; pkill -f "mut-wt/target/debug/deps" 2>/dev/null
  git -C $WT checkout -q -- .
  res=$(tools/try_patch.sh /verif/mutants/$name.diff $props 2>&1 | grep "^RESULT" | sed 's/^RESULT patch=[^ ]* //')
  echo "== $name suite=$suite"
  echo "$res" | cut -c1-230
  { echo "== $name suite=$suite"; echo "$res"; } > /verif/mutants/results/$name.txt
done < /verif/mutants/INDEX.tsv
