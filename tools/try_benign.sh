#!/bin/bash
# usage: try_benign.sh <group> <variant> [props...]  -- apply a property-preserving change in the sub-agent's scratch
# worktree /tmp/wtb-<group>, run the quick checks against that worktree (VERIF_REPO, no evidence written), undo.
# Any VIOLATION here is a candidate false alarm.
G=$1; V=$2; shift 2
WT=/tmp/wtb-$G; P=$WT/BENIGN/$V/patch.diff
PROPS=${@:-C01 C02 C03 C04 C05 C06 C07 C08 C09 C10 C11 C12 C13 C14 C15 C16 C17 C18 C19}
cd $WT || exit 2
git checkout -q -- src; rm -f tests/witness.rs
git apply --check $P 2>/dev/null || { echo "BENIGN $G/$V patch-does-not-apply"; exit 0; }
git apply $P
trap 'cd '$WT' && git checkout -q -- src' EXIT
for prop in $PROPS; do
  out=$(cd /verif && VERIF_NO_MIRI=1 VERIF_REPO=$WT ./check run $prop --tier quick 2>&1 | grep -v "^KNOWN-FINDING: property=C10 key")
  rc=$?
  first=$(echo "$out" | grep -m1 -A1 "^VIOLATION" | tr '\n' ' ' | cut -c1-300)
  inc=$(echo "$out" | grep -m1 "^INCONCLUSIVE" | cut -c1-200)
  ok=$(echo "$out" | grep -c "^OK ")
  echo "BENIGN $G/$V prop=$prop ok=$ok ${first}${inc}"
done
