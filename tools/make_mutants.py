#!/usr/bin/env python3
"""Generate /verif/mutants/<name>.diff from textual replacements against /repo HEAD (own mutants, DESIGN.md section 5)."""
import os, subprocess, sys
M = [
 # name, properties expected to catch, file, old, new
 ("m01_pad_mod255", "C02 C01", "src/encodation/mod.rs", "let pseudo_random = (((149 * pos) % 253) + 1) as u16;", "let pseudo_random = (((149 * pos) % 255) + 1) as u16;"),
 ("m02_c40_no_plus1_both", "C02 C04", None, None, None),  # multi-file, below
 ("m03_rand255_pos_off", "C02 C01", "src/encodation/base256.rs", "ctx.replace(start + i, randomize_255_state(ch, start + i + 1));", "ctx.replace(start + i, randomize_255_state(ch, start + i));"),
 ("m04_b256_len_field", "C02 C01", "src/encodation/base256.rs", "ctx.replace(start, ((data_count / 250) + 249) as u8);", "ctx.replace(start, ((data_count / 250) + 248) as u8);"),
 ("m05_rs_stride_ecc", "C06 C03", "src/errorcode/mod.rs", ".skip(block)\n            .step_by(stride)", ".skip(block.min(1) * block)\n            .step_by(stride)"),
 ("m06_gen_poly_coeff", "C06", "src/errorcode/mod.rs", "&[1, 254, 92, 240, 134, 144, 68, 23],", "&[1, 254, 92, 240, 134, 144, 68, 24],"),
 ("m07_corner2_cond", "C07", "src/placement.rs", "if i == nrow - 2 && j == 0 && ncol % 4 != 0 {", "if i == nrow - 2 && j == 0 && ncol % 8 != 0 {"),
 ("m08_dmre_wrap", "C07", "src/placement.rs", "        if i >= h {\n            i -= h;\n        }", "        if i > h {\n            i -= h;\n        }"),
 ("m09_parser_right_col", "C08", "src/placement.rs", "let alignment_ok = row[0] == M::HIGH && row[blk_w + 1] == alignment_bit;", "let alignment_ok = row[0] == M::HIGH && (j % (setup.extra_vertical_alignments + 1) != 0 || row[blk_w + 1] == alignment_bit);"),
 ("m10_padding_check", "C08", "src/placement.rs", "let padding_ok = entries[entries.len() - 2..] == [M::LOW, M::HIGH]\n                && entries", "let padding_ok = entries[entries.len() - 1..] == [M::HIGH]\n                && entries"),
 ("m11_malfunction_bound", "C09", "src/errorcode/decoding/syndrome_based.rs", "for j in t..=err_len - v - 1 {", "for j in t..err_len - v - 1 {"),
 ("m12_root_count", "C09 C05", "src/errorcode/decoding/syndrome_based.rs", "if inv_error_locations.len() != lambda_coeff.len() - 1 || inv_error_locations[0] == GF(0) {", "if inv_error_locations.is_empty() || inv_error_locations[0] == GF(0) {"),
 ("m13_hopeless_le", "C10", "src/encodation/planner/shortest_path.rs", "if first_cost < second_cost {", "if first_cost <= second_cost {"),
 ("m14_unbeatable_digits", "C10", "src/encodation/planner/c40.rs", "if consecutive_digits == 7 {", "if consecutive_digits == 12 {"),
 ("m15_b256_second_len_byte", "C10 C18 C11", "src/encodation/planner/base256.rs", "        if self.written >= 250 {\n            Some(self.cost + 1)", "        if self.written >= 350 {\n            Some(self.cost + 1)"),
 ("m16_no_write_run", "C11", "src/encodation/mod.rs", 'assert!(no_write_run <= 5, "no progress in encoder, this is a bug");', 'assert!(no_write_run <= 2, "no progress in encoder, this is a bug");'),
 ("m17_eci_boundary", "C15 C11 C02", "src/encodation/mod.rs", "            127..=16382 => {", "            127..=16383 => {"),
 ("m18_width_filter_uses_height", "C12", "src/symbol_size.rs", "            .retain(|s| bounds.contains(&s.block_setup().width));", "            .retain(|s| bounds.contains(&s.block_setup().height.max(s.block_setup().width)));"),
 ("m19_is_dmre_missing", "C12", "src/symbol_size.rs", "                | Self::Rect26x48\n                | Self::Rect26x64\n        )\n    }\n\n    fn capacity", "                | Self::Rect26x48\n        )\n    }\n\n    fn capacity"),
 ("m20_text_enabled_check", "C13", "src/encodation/planner/generic.rs", "if !matches!(self.plan, PlanImpl::Text(_)) && enabled_modes.contains(EncodationType::Text) {", "if !matches!(self.plan, PlanImpl::Text(_)) && enabled_modes.contains(EncodationType::C40) {"),
 ("m21_latin1_soft_hyphen", "C14", "src/data.rs", "            '\\u{00AD}' => 173,\n", ""),
 ("m22_eci_div", "C15", "src/encodation/mod.rs", "self.codewords.push((c / 64516 + 192) as u8);", "self.codewords.push((c / 64517 + 192) as u8);"),
 ("m23_8859_9_swap", "C15", "src/decodation/eci.rs", "'\\u{00D8}', '\\u{00D9}', '\\u{00DA}', '\\u{00DB}', '\\u{00DC}', '\\u{0130}',", "'\\u{00D8}', '\\u{00D9}', '\\u{00DA}', '\\u{00DB}', '\\u{00DC}', '\\u{0131}',"),
 ("m24_macro_ends_with", "C16 C01", "src/encodation/mod.rs", "if !self.codewords.is_empty() || !self.data.ends_with(MACRO_TRAIL) {", "if !self.codewords.is_empty() || !self.data.windows(2).any(|w| w == MACRO_TRAIL) {"),
 ("m25_macro06_head", "C16 C01", "src/decodation/mod.rs", "            out.extend_from_slice(MACRO06_HEAD);", "            out.extend_from_slice(MACRO05_HEAD);"),
 ("m26_path_insert", "C17", "src/placement/path.rs", "                        alternatives.push((insert, pos));", "                        alternatives.push((insert + 1, pos));"),
 ("m27_path_left_right", "C17", "src/placement/path.rs", "            Direction::Down => (self.i + 1, self.j - 1, Direction::Left),", "            Direction::Down => (self.i + 1, self.j, Direction::Right),"),
 ("m28_x12_unlatch_twice", "C18 C10", "src/encodation/planner/x12.rs", "        if self.values == 0 {\n            Some(self.cost + 1)", "        if self.values == 0 {\n            Some(self.cost + 2)"),
 ("m29_seen_never_set", "C19", "src/encodation/planner/shortest_path.rs", "            seen[pl_idx] = true;", "            seen[pl_idx] = pl_idx > 35;"),
 ("m30_no_prune", "C19", "src/encodation/planner/shortest_path.rs", "        remove_hopeless_cases(&mut new_plan);\n", "        if iteration % 64 == 0 { remove_hopeless_cases(&mut new_plan); }\n"),
 ("m31_edifact_le2", "C04 C01", "src/decodation/mod.rs", "        if data.len() <= 2 {\n            // rest is encoded as ASCII", "        if data.len() < 2 {\n            // rest is encoded as ASCII"),
 ("m32_b256_lt250", "C04", "src/decodation/mod.rs", "        } else if ch1 < 250 {", "        } else if ch1 <= 250 {"),
 ("m33_x12_accept", "C04", "src/decodation/mod.rs", "    if data.len() == 1 && data.peek(0) == Some(UNLATCH) {\n        // single UNLATCH at end of data\n        let _ = data.eat().unwrap();\n    }\n    Ok((data, EncodationType::Ascii))\n}\n\nconst BASE_C40", "    if data.len() == 1 {\n        // single UNLATCH at end of data\n        let _ = data.eat().unwrap();\n    }\n    Ok((data, EncodationType::Ascii))\n}\n\nconst BASE_C40"),
 ("m34_eci_2nd_check", "C05 C15", "src/decodation/mod.rs", "        128..=191 => {\n            let mut ch2 = data.eat()?;\n            if !matches!(ch2, 1..=254) {", "        128..=191 => {\n            let mut ch2 = data.eat()?;\n            if !matches!(ch2, 0..=254) {"),
 ("m35_shift2_range", "C05", "src/decodation/mod.rs", "                    ch @ 0..=26 => {\n                        let text = SHIFT2[ch as usize];", "                    ch @ 0..=27 => {\n                        let text = SHIFT2[ch as usize];"),
 ("m36_chien_start", "C03", "src/errorcode/decoding/mod.rs", "    for i in 0..=254 {\n        let val: GF = gamma.iter().copied().sum();", "    for i in 0..254 {\n        let val: GF = gamma.iter().copied().sum();"),
 ("m37_text_case_swap", "C01 C02", "src/encodation/text.rs", "        ch @ b'a'..=b'z' => ch - b'a' + b'A',", "        ch @ b'a'..=b'y' => ch - b'a' + b'A',"),
 ("m38_ceil_ascii", "C10 C18", "src/encodation/planner/ascii.rs", "        Some(self.cost.ceil())", "        Some(self.cost)"),
]
os.makedirs("/verif/mutants", exist_ok=True)
base = "/repo"
def diff_for(changes):
    # changes: list of (file, old, new); produce a unified diff without touching the working tree
    import tempfile, shutil
    out = ""
    for f, old, new in changes:
        src = open(os.path.join(base, f)).read()
        if old not in src:
            return None, "pattern not found in %s" % f
        dst = src.replace(old, new, 1)
        with tempfile.NamedTemporaryFile("w", suffix=".rs", delete=False) as t:
            t.write(dst)
        r = subprocess.run(["diff", "-u", "--label", "a/" + f, "--label", "b/" + f, os.path.join(base, f), t.name], capture_output=True, text=True)
        os.unlink(t.name)
        out += r.stdout
    return out, None
index = []
for name, props, f, old, new in M:
    if name == "m02_c40_no_plus1_both":
        changes = [("src/encodation/c40.rs", "let enc = 1600 * c1 as u16 + 40 * c2 as u16 + c3 as u16 + 1;", "let enc = 1600 * c1 as u16 + 40 * c2 as u16 + c3 as u16 + 2;"),
                   ("src/decodation/mod.rs", "        .checked_sub(1)", "        .checked_sub(2)")]
    else:
        changes = [(f, old, new)]
    d, err = diff_for(changes)
    if err:
        print("SKIP", name, err)
        continue
    open("/verif/mutants/%s.diff" % name, "w").write(d)
    index.append("%s\t%s" % (name, props))
open("/verif/mutants/INDEX.tsv", "w").write("\n".join(index) + "\n")
print(len(index), "mutants written")
