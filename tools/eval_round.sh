#!/bin/bash
# usage: eval_round.sh <round> <Cxx> [extra props]  -- confirm both variants in the scratch worktree, then run the owning quick check
# on /repo with the patch applied (blind: before any strengthening). Appends to /tmp/round<round>-eval.log
R=$1; P=$2; shift 2
for v in a b; do
  [ -f /tmp/wt$R-$P/SEEDED/$v/patch.diff ] || continue
  /verif/tools/confirm_seeded.sh $P $v wt$R >> /tmp/confirm$R-$P.txt 2>&1
  tail -1 /tmp/confirm$R-$P.txt | cut -c1-250
  /verif/tools/try_patch.sh /tmp/wt$R-$P/SEEDED/$v/patch.diff $P "$@" 2>&1 | grep RESULT | sed "s/^RESULT/RESULT $P-r$R$v/" | tee -a /tmp/round$R-eval.log
done
