#!/bin/bash
# usage: try_patch.sh <patch.diff> <Cxx> [<Cyy> ...]   -- apply a patch to /repo, run the quick checks, undo
set -u
P=$1; shift
cd /repo || exit 2
if ! git diff --quiet; then echo "/repo working tree not clean"; exit 2; fi
if ! git apply --check "$P" 2>/dev/null; then echo "patch does not apply: $P"; exit 2; fi
git apply "$P"
# evidence files are rewritten by every run: keep the clean-tree ones (a run on a patched tree is not evidence)
SAVE=$(mktemp -d)
cp /verif/evidence/*.json "$SAVE"/ 2>/dev/null
trap 'git -C /repo checkout -- . ; git -C /repo clean -fdq -- tests 2>/dev/null; cp "$SAVE"/*.json /verif/evidence/ 2>/dev/null; rm -rf "$SAVE"' EXIT
for prop in "$@"; do
  out=$(cd /verif && ./check run "$prop" --tier quick 2>&1)
  rc=$?
  first=$(echo "$out" | grep -m1 -A1 "^VIOLATION" | tr '\n' ' ' | cut -c1-260)
  inc=$(echo "$out" | grep -m1 "^INCONCLUSIVE" | cut -c1-200)
  echo "RESULT patch=$(basename $(dirname $P))/$(basename $P) prop=$prop exit=$rc ${first}${inc}"
done
