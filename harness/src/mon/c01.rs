//! C01 — encode -> symbol -> decode returns exactly the original bytes.
use super::enc_common::*;
use crate::ctx::{guard, Case, Ctx};
use crate::gen::inputs;
use crate::refimpl::cat;
use crate::refimpl::dec;
use datamatrix::DataMatrix;

pub fn eval(ctx: &mut Ctx, c: &EncCase, tag: &str) {
    ctx.eval();
    let e = match do_encode(c, true) {
        EncOut::Ok(e) => e,
        EncOut::Err(_) => return ctx.count("encode.refused"),
        EncOut::Panic(_) => return ctx.count("encode.panic(C11)"),
        EncOut::BadSpec => return ctx.harness_error("bad list spec"),
    };
    ctx.count("encode.ok");
    let case = || c.to_case("roundtrip");
    // (1) data codewords directly
    match guard(|| datamatrix::data::decode_data(&e.data)) {
        Err(p) => return ctx.violation("direct_decode_panic", &case(), p),
        Ok(Err(err)) => return ctx.violation("direct_decode_error", &case(), format!("decode_data(data_codewords) = Err({:?}); codewords {:?}", err, &e.data[..e.data.len().min(40)])),
        Ok(Ok(out)) => {
            if out != c.input {
                let p = out.iter().zip(&c.input).position(|(a, b)| a != b).unwrap_or(out.len().min(c.input.len()));
                return ctx.violation("direct_decode_differs", &case(), format!("decoded {} bytes, input {} bytes, first difference at byte {}", out.len(), c.input.len(), p));
            }
        }
    }
    // (2) full pixel pipeline
    match guard(|| DataMatrix::decode(&e.bits, e.width)) {
        Err(p) => return ctx.violation("pixel_decode_panic", &case(), p),
        Ok(Err(err)) => return ctx.violation("pixel_decode_error", &case(), format!("{:?}", err)),
        Ok(Ok(out)) => {
            if out != c.input {
                return ctx.violation("pixel_decode_differs", &case(), format!("decoded {} bytes, input {} bytes", out.len(), c.input.len()));
            }
        }
    }
    // the convenience wrappers DataMatrix::encode / encode_gs1 are entry points of their own: same round trip
    if c.macros && c.mask == 63 {
        if let Some(list) = crate::util::list_from_spec(&c.list) {
            let input = &c.input;
            let fnc1 = c.fnc1;
            let w = guard(|| if fnc1 { DataMatrix::encode_gs1(input, list) } else { DataMatrix::encode(input, list) });
            match w {
                Ok(Ok(dm)) => {
                    // (whether the wrappers produce the very same symbol as the builder is not part of the statement:
                    // recorded, not judged)
                    if dm.codewords() != &e.all[..] || dm.size != e.size {
                        ctx.count("wrapper.differs_from_builder(not judged)");
                    }
                    let bm = dm.bitmap();
                    match guard(|| DataMatrix::decode(bm.bits(), bm.width())) {
                        Ok(Ok(out)) if out == c.input => ctx.count("wrapper.roundtrip_ok"),
                        other => return ctx.violation("wrapper_roundtrip", &case(), format!("{:?}", other.map(|r| r.map(|v| v.len())))),
                    }
                }
                Ok(Err(_)) => ctx.count("wrapper.refused(not judged here; C10/C11)"),
                Err(p) => return ctx.violation("wrapper_panic", &case(), p),
            }
        }
    }
    ctx.count("roundtrip.ok");
    ctx.count(&format!("workload.{}", tag));
    ctx.count(&format!("size.{}", cat::row_of(e.size).name));
    if c.mask & 1 == 0 {
        ctx.count("config.ascii_disabled");
    }
    if c.macros {
        ctx.count("config.macros_on");
    }
    let d = dec::decode(&e.data).ok();
    if let Some(d) = &d {
        tag_stream(ctx, d, e.data.len());
    } else {
        ctx.count("rdec_rejects_stream(C02)");
    }
    if is_nontrivial(c, d.as_ref()) {
        ctx.nontrivial(c.key());
    }
    ctx.sample(|| c.describe().set("size", crate::json::J::s(cat::row_of(e.size).name)).set("result", crate::json::J::s("pixel decode == direct decode == input")));
}

pub fn run(ctx: &mut Ctx) {
    let max_len = 3116;
    // small-scope exhaustive over the class representatives
    let small_len = if ctx.is_thorough() { 5 } else { 4 };
    let n_small = inputs::count_small(small_len);
    let masks: &[u8] = if ctx.is_thorough() { &[63, 62, 1, 2, 4, 8, 16, 32, 33, 48, 6, 56] } else { &[63, 62, 48] };
    for i in 0..n_small {
        if !ctx.mine(i) {
            continue;
        }
        let s = inputs::small_string(i, small_len);
        for m in masks {
            eval(ctx, &EncCase { input: s.clone(), list: "default".into(), mask: *m, macros: true, fnc1: false, eci: None, order: 0, prelude: 0, skipdef: false, entry: 0 }, "small_scope_exhaustive");
        }
    }
    ctx.exhaustive.insert(format!("strings_len_le_{}_over_8_class_representatives_x_{}_mode_sets", small_len, masks.len()), true);
    // every single size with content near its capacity
    for (i, r) in cat::CAT.iter().enumerate() {
        if !ctx.mine(i) {
            continue;
        }
        for k in 0..6 {
            let len = match k {
                0 => r.data.saturating_sub(2),
                1 => r.data * 2,
                2 => r.data * 3 / 2,
                3 => r.data / 2,
                4 => r.data,
                _ => 1,
            };
            let input: Vec<u8> = (0..len).map(|j| if k == 1 { b'0' + (j % 10) as u8 } else if k == 2 { b'A' + (j % 26) as u8 } else if k == 0 { 0x80 + (j % 100) as u8 } else { b'a' + (j % 26) as u8 }).collect();
            eval(ctx, &EncCase { input, list: r.name.into(), mask: 63, macros: false, fnc1: false, eci: None, order: 0, prelude: 0, skipdef: false, entry: 0 }, "every_size_near_capacity");
        }
    }
    // three-part family around the Base256 length-field edge (deterministic)
    // end-of-data tail family (deterministic): packed-mode runs of every length 0..=42 x every tail of <= 3 characters
    {
        let step = if ctx.is_thorough() { 1 } else { 2 };
        let mut i = ctx.shard * step;
        while i < inputs::tail_family_count() {
            let input = inputs::tail_family_case(i);
            let list = match i % 5 { 0 => "all", _ => "default" };
            let mask = match i % 7 { 0 => 62u8, 1 => 17, _ => 63 };
            eval(ctx, &EncCase { input, list: list.into(), mask, macros: false, fnc1: false, eci: None, order: 0, prelude: 0, skipdef: false, entry: 0 }, "tail_family");
            i += step * ctx.nshards;
        }
    }
    // magnitude family: long class-pure runs on byte / power-of-two boundaries (deterministic; every 2nd in quick)
    {
        let step = if ctx.is_thorough() { 1 } else { 2 };
        let mut i = ctx.shard * step;
        while i < inputs::magnitude_family_count() {
            let input = inputs::magnitude_family_case(i);
            let list = if i % 3 == 0 { "all" } else { "default" };
            eval(ctx, &EncCase { input, list: list.into(), mask: 63, macros: false, fnc1: false, eci: None, order: 0, prelude: 0, skipdef: false, entry: 0 }, "magnitude_family");
            i += step * ctx.nshards;
        }
    }
    let fam_step = 1;
    let mut i = ctx.shard * fam_step;
    while i < inputs::family_count() {
        let input = inputs::family_case(i);
        let list = if i % 4 == 1 { "all" } else { "default" };
        eval(ctx, &EncCase { input, list: list.into(), mask: 63, macros: i % 2 == 0, fnc1: i % 16 == 5, eci: None, order: 0, prelude: 0, skipdef: false, entry: 0 }, "three_part_family");
        i += fam_step * ctx.nshards;
    }
    let n = ctx.budget(300_000, 30_000_000);
    for _ in 0..n {
        let c = gen_case(&mut ctx.rng, max_len);
        eval(ctx, &c, "generated");
    }
}

pub fn replay(ctx: &mut Ctx, case: &Case) {
    eval(ctx, &EncCase::from_case(case), "replay");
}
