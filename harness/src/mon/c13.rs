//! C13 — disabled encodation modes are never used (event-log checker over R-DEC's trace).
use super::enc_common::*;
use crate::ctx::{Case, Ctx};
use crate::refimpl::dec::{self, Mode};

pub fn eval(ctx: &mut Ctx, c: &EncCase, tag: &str) {
    ctx.eval();
    let e = match do_encode(c, false) {
        EncOut::Ok(e) => e,
        EncOut::Err(_) => return ctx.count("encode.refused"),
        EncOut::Panic(_) => return ctx.count("encode.panic(C11)"),
        EncOut::BadSpec => return ctx.harness_error("bad list spec"),
    };
    ctx.count("encode.ok");
    let case = || c.to_case("modes");
    let d = match dec::decode(&e.data) {
        Ok(d) => d,
        Err(_) => return ctx.count("rdec_rejects_stream(C02)"),
    };
    for m in &d.latches {
        if c.mask & m.bit() == 0 {
            return ctx.violation("latch_into_disabled_mode", &case(), format!("stream latches into {} but enabled modes are {}; stream {:?}", m.name(), crate::util::mask_names(c.mask), &e.data[..e.data.len().min(40)]));
        }
    }
    if c.mask & 1 == 0 {
        // ASCII disabled: ASCII may carry only the end-of-data fallback, i.e. a suffix of at most
        // four input characters, all after the last character carried by another mode
        let n = d.body_modes.len();
        let first_ascii = d.body_modes.iter().position(|m| *m == Mode::Ascii);
        if let Some(p) = first_ascii {
            let all_suffix = d.body_modes[p..].iter().all(|m| *m == Mode::Ascii);
            if !all_suffix || n - p > 4 {
                return ctx.violation("ascii_used_while_disabled", &case(), format!("ASCII carries body characters {}..{} of {} although ASCII is disabled (suffix-only: {})", p, n, n, all_suffix));
            }
            ctx.count("ascii_fallback_tail");
        }
    }
    ctx.count(&format!("workload.{}", tag));
    ctx.count_n("latches_checked", d.latches.len() as u64);
    tag_stream(ctx, &d, e.data.len());
    if c.mask != 63 {
        ctx.count("restricted_mode_set");
        ctx.count(&format!("mask.{}", c.mask));
        if !d.latches.is_empty() || c.mask & 1 == 0 {
            ctx.nontrivial(c.key());
        }
    }
    ctx.sample(|| c.describe().set("latches", crate::json::J::s(d.latches.iter().map(|m| m.name()).collect::<Vec<_>>().join(","))));
}

/// the same rule observed through the string entry point (`encode_str` on a configured builder): Latin-1 strings and
/// strings that need the UTF-8 ECI
pub fn eval_str(ctx: &mut Ctx, s: &str, cfg: &EncCase, tag: &str) {
    ctx.eval();
    let case = || {
        let mut c = cfg.to_case("modes_str");
        c.f.insert("utf8".into(), crate::json::hex(s.as_bytes()));
        c.f.remove("input");
        c
    };
    crate::ctx::trace_case(|| case().flat());
    let Some(b) = builder(cfg) else { return ctx.harness_error("bad list spec") };
    let data = match crate::ctx::guard(|| b.encode_str(s).map(|dm| dm.data_codewords().to_vec())) {
        Ok(Ok(d)) => d,
        Ok(Err(_)) => return ctx.count("encode.refused"),
        Err(_) => return ctx.count("encode.panic(C11)"),
    };
    let d = match dec::decode(&data) {
        Ok(d) => d,
        Err(_) => return ctx.count("rdec_rejects_stream(C02)"),
    };
    for m in &d.latches {
        if cfg.mask & m.bit() == 0 {
            return ctx.violation("latch_into_disabled_mode", &case(), format!("encode_str: stream latches into {} but enabled modes are {}; stream {:?}", m.name(), crate::util::mask_names(cfg.mask), &data[..data.len().min(40)]));
        }
    }
    if cfg.mask & 1 == 0 {
        let n = d.body_modes.len();
        if let Some(p) = d.body_modes.iter().position(|m| *m == Mode::Ascii) {
            let all_suffix = d.body_modes[p..].iter().all(|m| *m == Mode::Ascii);
            if !all_suffix || n - p > 4 {
                return ctx.violation("ascii_used_while_disabled", &case(), format!("encode_str: ASCII carries body bytes {}..{} of {} although ASCII is disabled (suffix-only: {})", p, n, n, all_suffix));
            }
        }
    }
    ctx.count(&format!("workload.{}", tag));
    ctx.count_n("latches_checked", d.latches.len() as u64);
    if cfg.mask != 63 {
        ctx.nontrivial(crate::rng::hash64(case().flat().as_bytes()));
    }
}

pub fn run(ctx: &mut Ctx) {
    // all 63 subsets on a fixed set of mixed inputs
    let fixed: Vec<Vec<u8>> = vec![
        b"ABCDEFGH12345678abcdefgh********\x80\x81\x82\x83!!!!    ".to_vec(),
        b"aimaimaimAIMAIMAIM1234567890\r*>\r*>\xff\xfe".to_vec(),
        (0..=255u8).collect(),
        b"A1a A1a A1a A1a A1a A1a A1a A1a ".to_vec(),
    ];
    let mut item = 0;
    for mask in 0..=63u8 {
        for f in &fixed {
            for list in ["default", "all", "Square144"] {
                if ctx.mine(item) {
                    eval(ctx, &EncCase { input: f.clone(), list: list.into(), mask, macros: false, fnc1: false, eci: None, order: 0, prelude: 0, skipdef: false, entry: 0 }, "all_63_subsets_fixed_inputs");
                }
                item += 1;
            }
        }
    }
    ctx.exhaustive.insert("64_mode_subsets_x_fixed_inputs".into(), true);
    // the string entry point under every mode subset: printable ASCII, ASCII with control characters, Latin-1, beyond
    {
        let strs = ["HELLO WORLD 123", "line one\nline two\ttab", "ABC\u{1d}DEF\u{1d}123456", "Gr\u{fc}\u{df}e aus K\u{f6}ln", "\u{65e5}\u{672c}\u{8a9e} text", "a\u{85}b", "lower case only text"];
        for mask in 0..=63u8 {
            for (si, st) in strs.iter().enumerate() {
                if ctx.mine(item) {
                    let cfg = EncCase { input: vec![], list: if si % 2 == 0 { "default".into() } else { "all".into() }, mask, macros: si % 3 != 0, fnc1: false, eci: None, order: (mask % 24) as u8, prelude: 0, skipdef: false, entry: 0 };
                    eval_str(ctx, st, &cfg, "strings_x_all_64_subsets");
                }
                item += 1;
            }
        }
    }
    // small scope: every string of length <= 3 over class representatives under every mode subset
    let alpha: [u8; 12] = [b'1', b'A', b'a', b' ', b'\r', b'*', b'!', b'?', b'~', 0x80, 0x1d, b'>'];
    let mut idx = 0usize;
    for len in 0..=3usize {
        let total = alpha.len().pow(len as u32);
        for code in 0..total {
            if ctx.mine(idx) {
                let mut c = code;
                let mut v = Vec::with_capacity(len);
                for _ in 0..len {
                    v.push(alpha[c % alpha.len()]);
                    c /= alpha.len();
                }
                for mask in 0..=63u8 {
                    eval(ctx, &EncCase { input: v.clone(), list: "default".into(), mask, macros: false, fnc1: code % 7 == 3, eci: None, order: 0, prelude: 0, skipdef: false, entry: 0 }, "small_scope_all_63_subsets");
                }
            }
            idx += 1;
        }
    }
    ctx.exhaustive.insert("strings_len_le_3_over_12_representatives_x_63_mode_subsets".into(), true);
    let n = ctx.budget(300_000, 30_000_000);
    for i in 0..n {
        let mut c = gen_case(&mut ctx.rng, 3116);
        c.mask = 1 + ctx.rng.below(63) as u8;
        if i % 3 == 0 {
            // the property's concern is longer inputs
            let extra = crate::gen::inputs::gen_input(&mut ctx.rng, 400);
            c.input.extend(extra);
            c.input.truncate(3116);
        }
        eval(ctx, &c, "generated");
        if i % 4 == 1 {
            // the string entry point with the same configuration
            // (control characters are kept: the string entry point treats them differently from printable text)
            let mut st: String = c.input.iter().take(400).map(|b| *b as char).filter(|ch| i % 16 == 1 || !ch.is_control() || (*ch as u32) < 0x20).collect();
            if i % 8 == 1 {
                st.push_str(*ctx.rng.pick(&["\u{20ac}", "\u{3b1}\u{3b2}", "\u{65e5}\u{672c}\u{8a9e}", "\u{1f600}"]));
                if ctx.rng.chance(1, 2) {
                    st.insert(0, '\u{3a9}');
                }
            }
            let mut cfg = c.clone();
            cfg.input.clear();
            cfg.entry = 0;
            eval_str(ctx, &st, &cfg, "generated_strings");
        }
    }
}

pub fn replay(ctx: &mut Ctx, case: &Case) {
    if case.kind == "modes_str" {
        let mut cfg = EncCase::from_case(case);
        cfg.input.clear();
        return match String::from_utf8(case.get_bytes("utf8")) {
            Ok(s) => eval_str(ctx, &s, &cfg, "replay"),
            Err(_) => ctx.harness_error("replay string not utf8"),
        };
    }
    eval(ctx, &EncCase::from_case(case), "replay");
}
