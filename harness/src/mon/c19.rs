//! C19 — planning work grows at most linearly with the input length (hook counters).
use super::enc_common::*;
use crate::ctx::{guard, Case, Ctx};
use crate::gen::inputs::{self, Class};
use crate::util::{list_from_spec, modes_from_mask};

pub const MAX_LIVE: usize = 36;
pub fn step_bound(n: usize) -> u64 {
    216 * (n as u64 + 1) + 6
}

pub fn eval(ctx: &mut Ctx, c: &EncCase, tag: &str) {
    if ctx.violation_count > 0 {
        // fail fast: once a bound is broken, later (longer) inputs may take arbitrarily long
        return;
    }
    ctx.eval();
    crate::ctx::trace_case(|| c.to_case("planwork").flat());
    let Some(list) = list_from_spec(&c.list) else { return ctx.harness_error("bad list spec") };
    let case = || c.to_case("planwork");
    let (input, mask) = (&c.input, c.mask);
    let _ = datamatrix::verif::take_planner_stats();
    // plan either through the planning API or (when a prefix is requested) through the encoder, which hands the
    // planner the number of codewords already written (FNC1, Macro, ECI)
    let (macros, eci, fnc1) = (c.macros, c.eci, c.fnc1);
    let via_encoder = eci.is_some() || macros || fnc1 || c.order % 2 == 1;
    let r = if via_encoder {
        match builder(c) {
            Some(b) => guard(|| b.encode_eci(input, eci).is_ok()),
            None => return ctx.harness_error("bad list spec"),
        }
    } else {
        guard(|| datamatrix::data::encodation_plan(input, &list, modes_from_mask(mask)).is_some())
    };
    let st = datamatrix::verif::take_planner_stats();
    if st.calls == 0 {
        // the encoder refused before planning (empty list, input longer than the theoretical limit)
        ctx.count("encoder_refused_before_planning");
        return;
    }
    // the planner sees the input without a stripped macro envelope: its own record of the length is authoritative
    let n_seen = st.input_len;
    if r.is_err() {
        ctx.count("plan.panic(C11)");
    }
    if st.calls != 1 {
        // one encode must plan once; several planner invocations are only tolerable if their total work stays
        // within the bound for one pass over the input
        ctx.count("multiple_planner_calls");
        let nfull = c.input.len();
        if st.steps > step_bound(nfull) {
            return ctx.violation("steps_exceed_linear_bound", &case(), format!("{} planner invocations with {} steps in total for n = {} (bound 216(n+1)+6 = {})", st.calls, st.steps, nfull, step_bound(nfull)));
        }
        if st.max_live > MAX_LIVE {
            return ctx.violation("live_plans_exceed_36", &case(), format!("{} candidate plans alive after pruning", st.max_live));
        }
        return;
    }
    let n = n_seen;
    if st.max_live > MAX_LIVE {
        return ctx.violation("live_plans_exceed_36", &case(), format!("{} candidate plans alive after pruning (bound {}), n = {}", st.max_live, MAX_LIVE, n));
    }
    if st.steps > step_bound(n) {
        return ctx.violation("steps_exceed_linear_bound", &case(), format!("{} steps for n = {} (bound 216(n+1)+6 = {})", st.steps, n, step_bound(n)));
    }
    // (the number of main-loop iterations is recorded but not judged: the statement bounds steps and live plans,
    // not how the loop is organised)
    ctx.max("max_iterations_per_char_x100", st.iterations * 100 / (n as u64 + 1));
    ctx.count(&format!("workload.{}", tag));
    ctx.max("max_live_after_prune", st.max_live as u64);
    ctx.max("max_before_prune", st.max_before_prune as u64);
    ctx.max("max_steps", st.steps);
    ctx.max("max_n", n as u64);
    ctx.max("max_steps_per_char_x100", st.steps * 100 / (n as u64 + 1));
    ctx.count_n("steps_total", st.steps);
    ctx.count_n("chars_total", n as u64 + 1);
    let bucket = match n {
        0..=9 => "n.0-9",
        10..=99 => "n.10-99",
        100..=999 => "n.100-999",
        _ => "n.1000+",
    };
    ctx.count(bucket);
    ctx.count(&format!("live.{}", st.max_live));
    if n > 0 {
        ctx.nontrivial(c.key());
    }
    ctx.sample(|| c.describe().set("steps", crate::json::J::i(st.steps)).set("max_live", crate::json::J::i(st.max_live)).set("iterations", crate::json::J::i(st.iterations)));
}

fn alternation(ctx: &mut Ctx, n: usize, period: usize, cls: &[Class]) -> Vec<u8> {
    let mut v = Vec::with_capacity(n);
    let mut k = 0;
    while v.len() < n {
        for _ in 0..period {
            if v.len() < n {
                v.push(inputs::class_char(&mut ctx.rng, cls[k % cls.len()]));
            }
        }
        k += 1;
    }
    v
}

pub fn run(ctx: &mut Ctx) {
    let mut item = 0usize;
    // every length up to 300, then geometric, homogeneous and alternating content
    let mut lens: Vec<usize> = (0..=300).collect();
    let mut l = 330;
    while l < 3116 {
        lens.push(l);
        l = l * 11 / 10;
    }
    lens.extend_from_slice(&[1555, 1556, 3000, 3115, 3116, 3117, 3500]);
    for n in lens {
        if ctx.mine(item) {
            for cls in [&[Class::Digit][..], &[Class::Upper], &[Class::Lower, Class::Digit], &[Class::Upper, Class::Lower, Class::EdiPunct], &[Class::HighOther, Class::Digit]] {
                let input = alternation(ctx, n, 1 + n % 3, cls);
                eval(ctx, &EncCase { input, list: if n % 2 == 0 { "default".into() } else { "all".into() }, mask: 63, macros: false, fnc1: false, eci: None, order: 0, prelude: 0, skipdef: false, entry: 0 }, "length_sweep");
            }
        }
        item += 1;
    }
    // adversarial alternations: all periods <= 7 over all class pairs and some triples
    let core = inputs::CORE;
    for period in 1..=7usize {
        for a in 0..core.len() {
            for b in 0..core.len() {
                if ctx.mine(item) {
                    let n = if ctx.is_thorough() { 1200 } else { 300 };
                    let input = alternation(ctx, n, period, &[core[a], core[b]]);
                    eval(ctx, &EncCase { input: input.clone(), list: "default".into(), mask: 63, macros: false, fnc1: false, eci: None, order: 0, prelude: 0, skipdef: false, entry: 0 }, "alternation_pairs");
                    let c3 = core[(a + b + period) % core.len()];
                    let input = alternation(ctx, n, period, &[core[a], core[b], c3]);
                    eval(ctx, &EncCase { input, list: "all".into(), mask: 63, macros: false, fnc1: false, eci: None, order: 0, prelude: 0, skipdef: false, entry: 0 }, "alternation_triples");
                }
                item += 1;
            }
        }
    }
    // tiny inputs (incl. the empty one) under every mode subset and a few lists
    for mask in 0..=63u8 {
        for n in 0..=4usize {
            if ctx.mine(item) {
                for list in ["default", "all", "Square10", "Square144"] {
                    let input: Vec<u8> = b"A1a*".iter().copied().cycle().take(n).collect();
                    eval(ctx, &EncCase { input, list: list.into(), mask, macros: false, fnc1: false, eci: None, order: 0, prelude: 0, skipdef: false, entry: 0 }, "tiny_inputs_all_64_subsets");
                }
            }
            item += 1;
        }
    }
    // all 63 mode subsets on a long adversarial input
    for mask in 1..=63u8 {
        if ctx.mine(item) {
            let input = alternation(ctx, 600, 2, &[Class::Upper, Class::Lower, Class::Digit, Class::EdiPunct]);
            eval(ctx, &EncCase { input, list: "default".into(), mask, macros: false, fnc1: false, eci: None, order: 0, prelude: 0, skipdef: false, entry: 0 }, "all_63_subsets_long_input");
        }
        item += 1;
    }
    // long inputs with many segments through the encoder (a long Base256 run first, then alternating classes)
    for k in 0..ctx.budget(16 * 4, 16 * 40) as usize {
        let head = [0usize, 249, 250, 251, 600][k % 5];
        let mut input: Vec<u8> = (0..head).map(|i| 0x80 + (i % 100) as u8).collect();
        let blocks = 20 + (k % 7) * 15;
        for b in 0..blocks {
            let cls = [Class::Upper, Class::Lower, Class::Digit, Class::EdiPunct][(b + k) % 4];
            for _ in 0..12 {
                input.push(inputs::class_char(&mut ctx.rng, cls));
            }
        }
        input.truncate(3000);
        eval(ctx, &EncCase { input, list: "default".into(), mask: 63, macros: false, fnc1: false, eci: None, order: 1, prelude: 0, skipdef: false, entry: 0 }, "long_segmented_through_encoder");
    }
    let n = ctx.budget(100_000, 3_000_000);
    for i in 0..n {
        let mut c = gen_case(&mut ctx.rng, 3116);
        if i % 4 == 0 {
            // long inputs
            let extra = inputs::gen_input(&mut ctx.rng, 3116);
            c.input.extend(extra);
            c.input.truncate(3200);
        }
        if i % 5 == 1 {
            c.eci = Some(*ctx.rng.pick(&[3u32, 26, 126, 127, 16383, 999999]));
        }
        eval(ctx, &c, "generated");
    }
}

pub fn replay(ctx: &mut Ctx, case: &Case) {
    eval(ctx, &EncCase::from_case(case), "replay");
}
