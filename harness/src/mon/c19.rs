//! C19 — planning work grows at most linearly with the input length (hook counters).
use super::enc_common::*;
use crate::ctx::{guard, Case, Ctx};
use crate::gen::inputs::{self, Class};
use crate::util::{list_from_spec, modes_from_mask};

pub const MAX_LIVE: usize = 36;
pub fn step_bound(n: usize) -> u64 {
    216 * (n as u64 + 1) + 6
}

pub fn eval(ctx: &mut Ctx, c: &EncCase, tag: &str) {
    if ctx.violation_count > 0 {
        // fail fast: once a bound is broken, later (longer) inputs may take arbitrarily long
        return;
    }
    ctx.eval();
    crate::ctx::trace_case(|| c.to_case("planwork").flat());
    let Some(list) = list_from_spec(&c.list) else { return ctx.harness_error("bad list spec") };
    let case = || c.to_case("planwork");
    let (input, mask) = (&c.input, c.mask);
    let _ = datamatrix::verif::take_planner_stats();
    // plan either through the planning API or (when a prefix is requested) through the encoder, which hands the
    // planner the number of codewords already written (FNC1, Macro, ECI)
    let (macros, eci, fnc1) = (c.macros, c.eci, c.fnc1);
    let via_encoder = eci.is_some() || macros || fnc1 || c.order % 2 == 1;
    let r = if via_encoder {
        match builder(c) {
            Some(b) => guard(|| b.encode_eci(input, eci).is_ok()),
            None => return ctx.harness_error("bad list spec"),
        }
    } else {
        guard(|| datamatrix::data::encodation_plan(input, &list, modes_from_mask(mask)).is_some())
    };
    let st = datamatrix::verif::take_planner_stats();
    if st.calls == 0 {
        // the encoder refused before planning (empty list, input longer than the theoretical limit)
        ctx.count("encoder_refused_before_planning");
        return;
    }
    // the planner sees the input without a stripped macro envelope: its own record of the length is authoritative
    let n_seen = st.input_len;
    if r.is_err() {
        ctx.count("plan.panic(C11)");
    }
    if st.calls != 1 {
        // one encode must plan once; several planner invocations are only tolerable if their total work stays
        // within the bound for one pass over the input
        ctx.count("multiple_planner_calls");
        let nfull = c.input.len();
        if st.steps > step_bound(nfull) {
            return ctx.violation("steps_exceed_linear_bound", &case(), format!("{} planner invocations with {} steps in total for n = {} (bound 216(n+1)+6 = {})", st.calls, st.steps, nfull, step_bound(nfull)));
        }
        if st.max_live > MAX_LIVE {
            return ctx.violation("live_plans_exceed_36", &case(), format!("{} candidate plans alive after pruning", st.max_live));
        }
        return;
    }
    let n = n_seen;
    if st.max_live > MAX_LIVE {
        return ctx.violation("live_plans_exceed_36", &case(), format!("{} candidate plans alive after pruning (bound {}), n = {}", st.max_live, MAX_LIVE, n));
    }
    if st.steps > step_bound(n) {
        return ctx.violation("steps_exceed_linear_bound", &case(), format!("{} steps for n = {} (bound 216(n+1)+6 = {})", st.steps, n, step_bound(n)));
    }
    // (the number of main-loop iterations is recorded but not judged: the statement bounds steps and live plans,
    // not how the loop is organised)
    ctx.max("max_iterations_per_char_x100", st.iterations * 100 / (n as u64 + 1));
    ctx.count(&format!("workload.{}", tag));
    ctx.max("max_live_after_prune", st.max_live as u64);
    ctx.max("max_before_prune", st.max_before_prune as u64);
    ctx.max("max_steps", st.steps);
    ctx.max("max_n", n as u64);
    ctx.max("max_steps_per_char_x100", st.steps * 100 / (n as u64 + 1));
    ctx.count_n("steps_total", st.steps);
    ctx.count_n("chars_total", n as u64 + 1);
    let bucket = match n {
        0..=9 => "n.0-9",
        10..=99 => "n.10-99",
        100..=999 => "n.100-999",
        _ => "n.1000+",
    };
    ctx.count(bucket);
    ctx.count(&format!("live.{}", st.max_live));
    if n > 0 {
        ctx.nontrivial(c.key());
    }
    ctx.sample(|| c.describe().set("steps", crate::json::J::i(st.steps)).set("max_live", crate::json::J::i(st.max_live)).set("iterations", crate::json::J::i(st.iterations)));
}

fn alternation(ctx: &mut Ctx, n: usize, period: usize, cls: &[Class]) -> Vec<u8> {
    let mut v = Vec::with_capacity(n);
    let mut k = 0;
    while v.len() < n {
        for _ in 0..period {
            if v.len() < n {
                v.push(inputs::class_char(&mut ctx.rng, cls[k % cls.len()]));
            }
        }
        k += 1;
    }
    v
}

/// periodic inputs whose planning cost must grow linearly: one planning call on 4n bytes against four calls on n
/// bytes (equal exposure to scheduling noise). Linear work gives a ratio near 1, quadratic work near 4.
/// The pinned tree shows up to 1.9 on pure letter runs (the C40/Text look-ahead `unbeatable_strike` scans to the end
/// of a base-set run at every step: a quadratic term with a tiny constant, outside the step count the statement
/// bounds). Only a quadratic-dominated ratio (>= 3.0 in three independent measurements) is reported.
fn growth_shapes() -> Vec<(&'static str, Vec<u8>)> {
    let mut v: Vec<(&'static str, Vec<u8>)> = vec![
        ("digits", b"0123456789".to_vec()),
        ("upper", b"ABCDEFGHIJKLMNOPQRSTUVWXYZ".to_vec()),
        ("lower", b"abcdefghijklmnopqrstuvwxyz".to_vec()),
        ("space_7digits", b" 1234567".to_vec()),
        ("space_8digits", b" 12345678".to_vec()),
        ("upper_7digits", b"AB1234567".to_vec()),
        ("lower_9digits", b"xy123456789".to_vec()),
        ("upper_lower", b"ABCDEFabcdef".to_vec()),
        ("x12_records", b"ABC*123>XYZ\r".to_vec()),
        ("edifact", b"+.-/:?()=@[]".to_vec()),
        ("digit_pairs_punct", b"12.34.56.78.".to_vec()),
        ("high_bytes", vec![0x80, 0xC3, 0xA9, 0xFF, 0xE2, 0x82, 0xAC]),
        ("high_then_digits", vec![0xE9, b'1', b'2', b'3', b'4', b'5', b'6', b'7', b'8']),
        ("shift2_chars", b"a!b\"c#d$".to_vec()),
        ("mixed_all", b"Ab1 *\xe9z9Q.".to_vec()),
        ("single_char", b"A".to_vec()),
        ("two_spaces_text", b"  lorem ipsum dolor sit amet 1234567 ".to_vec()),
    ];
    for (_, p) in v.iter_mut() {
        if p.is_empty() {
            p.push(b'A');
        }
    }
    v
}

pub fn time_growth(ctx: &mut Ctx) {
    use std::time::Instant;
    let n = 500usize;
    let Some(list) = list_from_spec("all") else { return };
    for (si, (name, pat)) in growth_shapes().into_iter().enumerate() {
        if !ctx.mine(si) || ctx.violation_count > 0 {
            continue;
        }
        ctx.eval();
        let small: Vec<u8> = pat.iter().copied().cycle().take(n).collect();
        let big: Vec<u8> = pat.iter().copied().cycle().take(4 * n).collect();
        let case = Case::new("plantime").with("shape", name).bytes("pattern", &pat).with("n", n);
        crate::ctx::trace_case(|| case.flat());
        let measure = |reps: usize| -> Result<(f64, f64), String> {
            let mut ts = f64::MAX;
            let mut tb = f64::MAX;
            for _ in 0..reps {
                let t0 = Instant::now();
                for _ in 0..4 {
                    guard(|| datamatrix::data::encodation_plan(&small, &list, modes_from_mask(63)).is_some())?;
                }
                ts = ts.min(t0.elapsed().as_secs_f64());
                let t1 = Instant::now();
                guard(|| datamatrix::data::encodation_plan(&big, &list, modes_from_mask(63)).is_some())?;
                tb = tb.min(t1.elapsed().as_secs_f64());
            }
            Ok((ts, tb))
        };
        let _ = datamatrix::verif::take_planner_stats();
        // three independent confirmations (minimum over repetitions each); all must agree before anything is reported
        let mut ratios = Vec::new();
        for round in 0..3 {
            match measure(if round == 0 { 3 } else { 7 }) {
                Err(_) => {
                    ctx.count("plan.panic(C11)");
                    break;
                }
                Ok((ts, tb)) => {
                    let r = tb / ts.max(1e-9);
                    ratios.push(r);
                    if r < 3.0 {
                        break;
                    }
                }
            }
        }
        let _ = datamatrix::verif::take_planner_stats();
        if ratios.is_empty() {
            continue;
        }
        let rmin = ratios.iter().cloned().fold(f64::MAX, f64::min);
        ctx.max("max_time_ratio_plan(4n)_vs_4xplan(n)_x100", (rmin * 100.0) as u64);
        ctx.max(&format!("time_ratio_x100.{}", name), (rmin * 100.0) as u64);
        ctx.count("workload.time_growth_shapes");
        if ratios.len() == 3 && rmin >= 3.0 {
            ctx.violation("planning_time_superlinear", &case, format!("one planning call on {} bytes takes {:.1}x the time of four calls on {} bytes in three independent measurements (linear work gives about 1, quadratic about 4): {:?}", 4 * n, rmin, n, ratios.iter().map(|r| (r * 100.0).round() / 100.0).collect::<Vec<_>>()));
        }
    }
}

pub fn run(ctx: &mut Ctx) {
    let mut item = 0usize;
    time_growth(ctx);
    // every length up to 300, then geometric, homogeneous and alternating content
    let mut lens: Vec<usize> = (0..=300).collect();
    let mut l = 330;
    while l < 3116 {
        lens.push(l);
        l = l * 11 / 10;
    }
    lens.extend_from_slice(&[1555, 1556, 3000, 3115, 3116, 3117, 3500]);
    for n in lens {
        if ctx.mine(item) {
            for cls in [&[Class::Digit][..], &[Class::Upper], &[Class::Lower, Class::Digit], &[Class::Upper, Class::Lower, Class::EdiPunct], &[Class::HighOther, Class::Digit]] {
                let input = alternation(ctx, n, 1 + n % 3, cls);
                eval(ctx, &EncCase { input, list: if n % 2 == 0 { "default".into() } else { "all".into() }, mask: 63, macros: false, fnc1: false, eci: None, order: 0, prelude: 0, skipdef: false, entry: 0 }, "length_sweep");
            }
        }
        item += 1;
    }
    // adversarial alternations: all periods <= 7 over all class pairs and some triples
    let core = inputs::CORE;
    for period in 1..=7usize {
        for a in 0..core.len() {
            for b in 0..core.len() {
                if ctx.mine(item) {
                    let n = if ctx.is_thorough() { 1200 } else { 300 };
                    let input = alternation(ctx, n, period, &[core[a], core[b]]);
                    eval(ctx, &EncCase { input: input.clone(), list: "default".into(), mask: 63, macros: false, fnc1: false, eci: None, order: 0, prelude: 0, skipdef: false, entry: 0 }, "alternation_pairs");
                    let c3 = core[(a + b + period) % core.len()];
                    let input = alternation(ctx, n, period, &[core[a], core[b], c3]);
                    eval(ctx, &EncCase { input, list: "all".into(), mask: 63, macros: false, fnc1: false, eci: None, order: 0, prelude: 0, skipdef: false, entry: 0 }, "alternation_triples");
                }
                item += 1;
            }
        }
    }
    // tiny inputs (incl. the empty one) under every mode subset and a few lists
    for mask in 0..=63u8 {
        for n in 0..=10usize {
            if ctx.mine(item) {
                for list in ["default", "all", "Square10", "Square144"] {
                    let input: Vec<u8> = b"A1a*".iter().copied().cycle().take(n).collect();
                    eval(ctx, &EncCase { input, list: list.into(), mask, macros: false, fnc1: false, eci: None, order: 0, prelude: 0, skipdef: false, entry: 0 }, "tiny_inputs_all_64_subsets");
                }
            }
            item += 1;
        }
    }
    // all 63 mode subsets on a long adversarial input
    for mask in 1..=63u8 {
        if ctx.mine(item) {
            let input = alternation(ctx, 600, 2, &[Class::Upper, Class::Lower, Class::Digit, Class::EdiPunct]);
            eval(ctx, &EncCase { input, list: "default".into(), mask, macros: false, fnc1: false, eci: None, order: 0, prelude: 0, skipdef: false, entry: 0 }, "all_63_subsets_long_input");
        }
        item += 1;
    }
    // long inputs with many segments through the encoder (a long Base256 run first, then alternating classes)
    for k in 0..ctx.budget(16 * 4, 16 * 40) as usize {
        let head = [0usize, 249, 250, 251, 600][k % 5];
        let mut input: Vec<u8> = (0..head).map(|i| 0x80 + (i % 100) as u8).collect();
        let blocks = 20 + (k % 7) * 15;
        for b in 0..blocks {
            let cls = [Class::Upper, Class::Lower, Class::Digit, Class::EdiPunct][(b + k) % 4];
            for _ in 0..12 {
                input.push(inputs::class_char(&mut ctx.rng, cls));
            }
        }
        input.truncate(3000);
        eval(ctx, &EncCase { input, list: "default".into(), mask: 63, macros: false, fnc1: false, eci: None, order: 1, prelude: 0, skipdef: false, entry: 0 }, "long_segmented_through_encoder");
    }
    let n = ctx.budget(100_000, 3_000_000);
    for i in 0..n {
        let mut c = gen_case(&mut ctx.rng, 3116);
        if i % 4 == 0 {
            // long inputs
            let extra = inputs::gen_input(&mut ctx.rng, 3116);
            c.input.extend(extra);
            c.input.truncate(3200);
        }
        if i % 5 == 1 {
            c.eci = Some(*ctx.rng.pick(&[3u32, 26, 126, 127, 16383, 999999]));
        }
        eval(ctx, &c, "generated");
    }
}

pub fn replay(ctx: &mut Ctx, case: &Case) {
    if case.kind == "plantime" {
        // the shapes are fixed: re-measure all of them
        let save = (ctx.shard, ctx.nshards);
        ctx.shard = 0;
        ctx.nshards = 1;
        time_growth(ctx);
        ctx.shard = save.0;
        ctx.nshards = save.1;
        return;
    }
    eval(ctx, &EncCase::from_case(case), "replay");
}
