//! C11 — encoding is total and failures are classified correctly (panic monitor + iff on the list).
use super::enc_common::*;
use crate::ctx::{guard, Case, Ctx};
use crate::gen::inputs;
use crate::util::{list_from_spec, modes_from_mask, rows_from_spec};
use datamatrix::data::DataEncodingError;

fn classify(ctx: &mut Ctx, c: &EncCase, api: &str, res: Result<Result<(), DataEncodingError>, String>) {
    let mut case = c.to_case("total").with("api", api);
    if api == "encode_str" {
        case = case.with("api", "encode_str");
    }
    let empty = rows_from_spec(&c.list).is_empty();
    match res {
        Err(p) => ctx.violation("panic", &case, p),
        Ok(Ok(())) => {
            if empty {
                ctx.violation("success_with_empty_list", &case, "encoding succeeded although the symbol list is empty");
            } else {
                ctx.count(&format!("{}.ok", api));
            }
        }
        Ok(Err(DataEncodingError::SymbolListEmpty)) => {
            if !empty {
                ctx.violation("symbol_list_empty_for_nonempty_list", &case, format!("SymbolListEmpty returned for the non-empty list {}", if c.list.len() > 80 { &c.list[..80] } else { &c.list }));
            } else {
                ctx.count(&format!("{}.symbol_list_empty", api));
            }
        }
        Ok(Err(DataEncodingError::TooMuchOrIllegalData)) => {
            if empty {
                ctx.violation("wrong_error_for_empty_list", &case, "TooMuchOrIllegalData returned for an empty list");
            } else {
                ctx.count(&format!("{}.too_much", api));
            }
        }
    }
}

pub fn eval(ctx: &mut Ctx, c: &EncCase, tag: &str) {
    ctx.eval();
    crate::ctx::trace_case(|| c.to_case("total").with("api", "encode").flat());
    // builder.encode_eci (covers encode / DataMatrix::encode / encode_gs1)
    let Some(b) = builder(c) else { return ctx.harness_error("bad list spec") };
    let (input, eci) = (&c.input, c.eci);
    let r = guard(|| b.encode_eci(input, eci).map(|dm| {
        // touch the accessors a caller would use
        let _ = dm.codewords().len() + dm.data_codewords().len();
    }));
    classify(ctx, c, "encode", r);
    // data::encode_data (no fnc1 parameter)
    if !c.fnc1 {
        let list = list_from_spec(&c.list).unwrap();
        let (mask, macros) = (c.mask, c.macros);
        let r = guard(|| datamatrix::data::encode_data(input, &list, eci, modes_from_mask(mask), macros).map(|_| ()));
        classify(ctx, c, "encode_data", r);
        // data::encodation_plan: Option, must not panic
        let r = guard(|| datamatrix::data::encodation_plan(input, &list, modes_from_mask(mask)).map(|p| p.len()));
        match r {
            Err(p) => ctx.violation("panic", &c.to_case("total").with("api", "encodation_plan"), p),
            Ok(Some(_)) => ctx.count("encodation_plan.some"),
            Ok(None) => ctx.count("encodation_plan.none"),
        }
    }
    // encode_str when the input is valid UTF-8
    if c.eci.is_none() {
        if let Ok(s) = std::str::from_utf8(&c.input) {
            let b = builder(c).unwrap();
            let r = guard(|| b.encode_str(s).map(|_| ()));
            classify(ctx, c, "encode_str", r);
        }
    }
    ctx.count(&format!("workload.{}", tag));
    if c.mask & 1 == 0 {
        ctx.count("config.ascii_disabled");
    }
    if c.mask == 0 {
        ctx.count("config.no_modes");
    }
    if c.list == "empty" {
        ctx.count("config.empty_list");
    }
    if !c.default_config() || !c.input.is_empty() {
        ctx.nontrivial(c.key());
    }
    ctx.sample(|| c.describe());
}

pub fn run(ctx: &mut Ctx) {
    // magnitude family: long class-pure runs on byte / power-of-two boundaries (deterministic)
    {
        let mut i = ctx.shard;
        while i < inputs::magnitude_family_count() {
            let input = inputs::magnitude_family_case(i);
            let list = if i % 3 == 0 { "all" } else { "default" };
            eval(ctx, &EncCase { input, list: list.into(), mask: if i % 5 == 0 { 62 } else { 63 }, macros: false, fnc1: i % 7 == 0, eci: None, order: 0, prelude: 0, skipdef: false, entry: (i % 3) as u8 }, "magnitude_family");
            i += ctx.nshards;
        }
    }
    let mut item = 0usize;
    // fixed hostile configurations
    let digits = |n: usize| -> Vec<u8> { (0..n).map(|i| b'0' + (i % 10) as u8).collect() };
    let mut fixed: Vec<EncCase> = Vec::new();
    for n in [0usize, 1, 2, 6, 7, 3000, 3116, 3117, 1555, 1556, 1557, 2000, 5000] {
        for list in ["default", "all", "empty", "Square144", "Square10", "Square10,Square12", "Square132,Square144"] {
            fixed.push(EncCase { input: digits(n), list: list.into(), mask: 63, macros: true, fnc1: false, eci: None, order: 0, prelude: 0, skipdef: false, entry: 0 });
            fixed.push(EncCase { input: vec![0xA5; n.min(1700)], list: list.into(), mask: 63, macros: true, fnc1: false, eci: None, order: 0, prelude: 0, skipdef: false, entry: 0 });
        }
    }
    for head in [inputs::MACRO05, inputs::MACRO06] {
        for extra in 0..4 {
            let mut v = head.to_vec();
            v.extend(std::iter::repeat(b'A').take(extra));
            for fnc1 in [false, true] {
                fixed.push(EncCase { input: v.clone(), list: "default".into(), mask: 63, macros: true, fnc1, eci: None, order: 0, prelude: 0, skipdef: false, entry: 0 });
                let mut w = v.clone();
                w.extend_from_slice(inputs::TRAIL);
                fixed.push(EncCase { input: w, list: "default".into(), mask: 63, macros: true, fnc1, eci: None, order: 0, prelude: 0, skipdef: false, entry: 0 });
            }
            for cut in 1..head.len() {
                fixed.push(EncCase { input: head[..cut].to_vec(), list: "default".into(), mask: 63, macros: true, fnc1: false, eci: None, order: 0, prelude: 0, skipdef: false, entry: 0 });
            }
        }
    }
    for c in fixed {
        if ctx.mine(item) {
            eval(ctx, &c, "fixed_hostile");
        }
        item += 1;
    }
    // all 64 mode subsets x small inputs x lists incl. empty
    let smalls: Vec<Vec<u8>> = vec![vec![], b"A".to_vec(), b"12".to_vec(), b"ABCDEFGH12345678".to_vec(), b"aimaim*>\r 123\x80\xff".to_vec(), (0..60).map(|i| b"A1a *!\x80"[i % 7]).collect()];
    for mask in 0..=63u8 {
        for s in &smalls {
            for list in ["default", "empty", "Square16", "Rect8x18,Square14"] {
                if ctx.mine(item) {
                    eval(ctx, &EncCase { input: s.clone(), list: list.into(), mask, macros: true, fnc1: false, eci: None, order: 0, prelude: 0, skipdef: false, entry: 0 }, "all_64_subsets");
                }
                item += 1;
            }
        }
    }
    // every single size and every ordered pair with inputs around their capacity
    let pairs_step = if ctx.is_thorough() { 1 } else { 5 };
    let mut pi = 0usize;
    for a in crate::refimpl::cat::CAT.iter() {
        for b in crate::refimpl::cat::CAT.iter() {
            pi += 1;
            if pi % pairs_step != 0 {
                continue;
            }
            if ctx.mine(item) {
                let cap = a.data.max(b.data);
                for (k, n) in [cap, cap * 2, cap * 2 + 1, cap - 1, a.data.min(b.data)].iter().enumerate() {
                    let input = if k % 2 == 0 { digits(*n) } else { (0..*n).map(|i| b'A' + (i % 26) as u8).collect() };
                    eval(ctx, &EncCase { input, list: format!("{},{}", a.name, b.name), mask: 63, macros: false, fnc1: false, eci: None, order: 0, prelude: 0, skipdef: false, entry: 0 }, "ordered_pairs_of_sizes");
                }
            }
            item += 1;
        }
    }
    let n = ctx.budget(250_000, 25_000_000);
    for i in 0..n {
        let mut c = gen_case(&mut ctx.rng, 3300);
        match i % 10 {
            0 => c.mask = ctx.rng.below(64) as u8,
            1 => c.list = "empty".into(),
            2 => {
                c.eci = Some(match ctx.rng.below(7) {
                    0 => 0,
                    1 => 126,
                    2 => 127,
                    3 => 16382,
                    4 => 16383,
                    5 => 999999,
                    _ => ctx.rng.below(1_000_000) as u32,
                })
            }
            3 => c.input = inputs::macro_material(&mut ctx.rng, 30),
            4 => {
                // printable strings so that encode_str is exercised as well
                c.input = (0..ctx.rng.below(60)).map(|_| *ctx.rng.pick(b"ABCxyz0189 ,.-*>\r\n")).collect();
            }
            _ => {}
        }
        eval(ctx, &c, "generated");
    }
}

pub fn replay(ctx: &mut Ctx, case: &Case) {
    eval(ctx, &EncCase::from_case(case), "replay");
}
