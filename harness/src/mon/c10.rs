//! C10 — the smallest symbol that can hold the data is chosen (R-OPT certificate oracle).
use super::enc_common::*;
use crate::ctx::{Case, Ctx};
use crate::gen::inputs::{self, Class};
use crate::refimpl::cat;
use crate::refimpl::dec;
use crate::refimpl::enc::{self, Header};
use crate::refimpl::opt::{self, Opts};
use crate::util::caps_from_spec;
use datamatrix::data::DataEncodingError;

/// materialise and certify an R-OPT script: Some(stream) iff R-ENC emits it and R-DEC reads the input back
fn certify(ctx: &mut Ctx, input: &[u8], full: &[u8], sc: &enc::Script) -> Option<Vec<u8>> {
    match enc::encode(input, sc) {
        Err(e) => {
            ctx.harness_error(format!("R-OPT script refused by R-ENC: {} ({})", e, sc.describe()));
            None
        }
        Ok((w, _)) => match dec::decode(&w) {
            Ok(d) if d.bytes == full && d.l1_uses == 0 && w.len() == sc.cap => Some(w),
            _ => {
                ctx.harness_error(format!("R-OPT/R-ENC stream not confirmed by R-DEC ({})", sc.describe()));
                None
            }
        },
    }
}

pub fn eval(ctx: &mut Ctx, c: &EncCase, tag: &str, use_ropt: bool, strict: bool) {
    ctx.eval();
    let caps = caps_from_spec(&c.list);
    if caps.is_empty() {
        return;
    }
    let case = || c.to_case("minimal");
    let res = do_encode(c, false);
    let (crate_cap, refused) = match &res {
        EncOut::Ok(e) => (Some(cat::row_of(e.size).data), false),
        EncOut::Err(DataEncodingError::TooMuchOrIllegalData) => (None, true),
        EncOut::Err(_) => return ctx.count("encode.symbol_list_empty(C11)"),
        EncOut::Panic(_) => return ctx.count("encode.panic(C11)"),
        EncOut::BadSpec => return ctx.harness_error("bad list spec"),
    };
    // macro envelope: the encoder may (and by C16 must) replace header + trailer by one codeword
    let envelope = c.macros && !c.fnc1 && c.input.len() >= 9 && (c.input.starts_with(inputs::MACRO05) || c.input.starts_with(inputs::MACRO06)) && c.input.ends_with(inputs::TRAIL);
    let (body, header, hcw): (&[u8], Header, usize) = if envelope {
        (&c.input[7..c.input.len() - 2], if c.input.starts_with(inputs::MACRO05) { Header::Macro05 } else { Header::Macro06 }, 1)
    } else if c.fnc1 {
        (&c.input[..], Header::Fnc1, 1)
    } else {
        (&c.input[..], Header::None, 0)
    };
    let n = body.len();
    let upper = crate_cap.unwrap_or(usize::MAX);
    // "in particular" bounds: plain ASCII and plain Base256 encodation of the whole message
    let mut bound: Option<(usize, &'static str)> = None;
    if c.mask & 1 != 0 {
        let al = enc::ascii_len(body, true) + hcw;
        if let Some(cap) = caps.iter().find(|x| **x >= al) {
            bound = Some((*cap, "plain ASCII"));
        }
    }
    if c.mask & 32 != 0 && n >= 1 && n <= 1555 {
        let need = hcw + 1 + if n <= 249 { 1 } else { 2 } + n;
        let mut b = caps.iter().find(|x| **x >= need).copied();
        // length-0 form: fills a symbol exactly
        if let Some(x) = caps.iter().find(|x| **x == n + 2 + hcw) {
            b = Some(b.map_or(*x, |y| y.min(*x)));
        }
        if let Some(b) = b {
            if bound.map_or(true, |(x, _)| b < x) {
                bound = Some((b, "plain Base256"));
            }
        }
    }
    if let Some((b, what)) = bound {
        if b < upper {
            let d = if refused { "encoder refused the data (TooMuchOrIllegalData)".to_string() } else { format!("encoder chose capacity {}", upper) };
            let msg = format!("{} of the whole message fits capacity {} of the list, but the {}", what, b, d);
            if !strict {
                // seed-dependent exploration: extremely rare consequence of the heuristic pruning (class-level finding)
                ctx.count("explore.bounds_evaluated");
                return ctx.soft_violation("larger_than_plain_encodation", &case(), msg);
            }
            return ctx.violation("larger_than_plain_encodation", &case(), msg);
        }
        ctx.count("bounds_checked");
        if !strict {
            ctx.count("explore.bounds_evaluated");
        }
    }
    if c.mask & 1 == 0 {
        // R-OPT then searches encodings without any ASCII data codeword (a subset of what any reading of "only the
        // enabled modes" allows), so a smaller symbol it exhibits is a smaller symbol under every reading
        ctx.count("ascii_disabled_evaluated_without_ascii_codewords");
    }
    if !use_ropt {
        ctx.count("long_input_bounds_only");
        ctx.nontrivial(c.key());
        return;
    }
    let o = Opts { mask: c.mask, header, implicit_pair: false, trailing_254: true };
    if let Some((cap, sc)) = opt::min_cap(body, &caps, upper, &o) {
        if let Some(w) = certify(ctx, body, &c.input, &sc) {
            let d = if refused { "the encoder refused the data (TooMuchOrIllegalData)".to_string() } else { format!("the encoder chose capacity {}", upper) };
            if !strict {
                // seed-dependent exploration: the planner is a heuristic (class-level known finding), judged by rate
                ctx.count("explore.ropt_evaluated");
                return ctx.soft_violation("smaller_symbol_possible", &case(), format!("a valid stream fits the listed capacity {}: script {} stream {:?}; {}", cap, sc.describe(), &w[..w.len().min(40)], d));
            }
            return ctx.violation("smaller_symbol_possible", &case(), format!("a valid stream fits the listed capacity {}: script {} stream {:?}; {}", cap, sc.describe(), &w[..w.len().min(40)], d));
        }
        return;
    }
    ctx.count("ropt.no_smaller_symbol");
    ctx.count(if strict { "corpus.ropt_evaluated" } else { "explore.ropt_evaluated" });
    ctx.count(&format!("workload.{}", tag));
    if refused {
        ctx.count("refused_and_ropt_agrees");
    } else {
        ctx.count(&format!("cap.{}", upper));
        // how complete is R-OPT? does it find the crate's own capacity feasible?
        if ctx.evaluations % 8 == 0 {
            if opt::feasible(body, upper, &o).is_some() {
                ctx.count("ropt.agrees_on_crate_capacity");
            } else {
                ctx.count("ropt.crate_better(ropt incomplete or crate uses an idiom R-ENC does not emit)");
            }
        }
    }
    ctx.nontrivial(c.key());
    ctx.sample(|| c.describe().set("crate_capacity", crate::json::J::i(upper as i128)).set("caps_tested_below", crate::json::J::i(caps.iter().filter(|x| **x < upper && **x >= (n + 1) / 2).count())));
}

pub fn run(ctx: &mut Ctx) {
    // small-scope exhaustive under mode subsets containing ASCII
    let small_len = if ctx.is_thorough() { 5 } else { 4 };
    let n_small = inputs::count_small(small_len);
    let masks: Vec<u8> = if ctx.is_thorough() { (0..32u8).map(|m| (m << 1) | 1).collect() } else { vec![63, 1, 3, 17, 33, 9, 5, 51] };
    for i in 0..n_small {
        if !ctx.mine(i) {
            continue;
        }
        let s = inputs::small_string(i, small_len);
        for m in &masks {
            for l in ["default", "all"] {
                eval(ctx, &EncCase { input: s.clone(), list: l.into(), mask: *m, macros: false, fnc1: false, eci: None, order: 0, prelude: 0, skipdef: false, entry: 0 }, "small_scope_exhaustive", true, true);
            }
        }
    }
    ctx.exhaustive.insert(format!("strings_len_le_{}_x_{}_mode_sets_with_ascii_x_2_lists", small_len, masks.len()), true);
    // capacity-boundary sweep: inputs whose plain ASCII / plain Base256 encodation just fits (or just misses)
    // each of the capacities, against lists in which that capacity is the decisive one
    let mut caps: Vec<(usize, &'static str)> = cat::CAT.iter().map(|r| (r.data, r.name)).collect();
    caps.sort();
    let mut item = 0usize;
    for (ci, (c, name)) in caps.iter().enumerate() {
        let next = caps.get(ci + 1).map(|x| x.1);
        for kind in 0..4 {
            for delta in -2i64..=1 {
                if !ctx.mine(item) {
                    item += 1;
                    continue;
                }
                item += 1;
                let c = *c as i64;
                let input: Vec<u8> = match kind {
                    // binary: Base256 is the only compact form; 1- and 2-byte length field, length-0 form
                    0 => {
                        let l = c - 2 + delta;
                        (0..l.max(0)).map(|i| 0x80 + ((i * 37 + c) % 120) as u8).collect()
                    }
                    1 => {
                        let l = c - 3 + delta;
                        (0..l.max(0)).map(|i| 0x85 + ((i * 11 + c) % 100) as u8).collect()
                    }
                    // digits: ASCII pairs are optimal
                    2 => {
                        let l = 2 * c + delta;
                        (0..l.max(0)).map(|i| b'0' + ((i * 7 + c) % 10) as u8).collect()
                    }
                    // mixed case + punctuation: plain ASCII is (nearly) optimal
                    _ => {
                        let l = c + delta;
                        (0..l.max(0)).map(|i| b"aA~b{Z|"[(i as usize) % 7]).collect()
                    }
                };
                let mut lists = vec!["default".to_string(), "all".to_string(), name.to_string()];
                if let Some(nx) = next {
                    lists.push(format!("{},{}", name, nx));
                }
                for l in lists {
                    let use_ropt = input.len() <= 60;
                    eval(ctx, &EncCase { input: input.clone(), list: l, mask: 63, macros: false, fnc1: false, eci: None, order: 0, prelude: 0, skipdef: false, entry: 0 }, "capacity_boundary_sweep", use_ropt, true);
                }
            }
        }
    }
    ctx.exhaustive.insert("capacity_boundary_sweep_48_sizes_x_4_kinds_x_4_deltas".into(), true);
    // Base256 runs at the length-field edges followed / preceded by runs of another class, sized so that the total
    // ends near a capacity: the planner's bookkeeping at 249/250 decides later end-of-data rules
    for l in [248usize, 249, 250, 251, 252] {
        for (ti, tail_cls) in [Class::Upper, Class::Digit, Class::Lower, Class::EdiPunct].iter().enumerate() {
            for tl in 0..=60usize {
                if !ctx.mine(item) {
                    item += 1;
                    continue;
                }
                item += 1;
                let mut r = crate::rng::Rng::new(0xB256, "C10-b256mix", (l * 1000 + ti * 100 + tl) as u64);
                let bin: Vec<u8> = (0..l).map(|i| 0x80 + ((i * 29 + tl) % 120) as u8).collect();
                let tail: Vec<u8> = (0..tl).map(|_| inputs::class_char(&mut r, *tail_cls)).collect();
                for order in 0..2 {
                    let input: Vec<u8> = if order == 0 { [&bin[..], &tail[..]].concat() } else { [&tail[..], &bin[..]].concat() };
                    eval(ctx, &EncCase { input, list: "default".into(), mask: 63, macros: false, fnc1: false, eci: None, order: 0, prelude: 0, skipdef: false, entry: 0 }, "base256_boundary_mix", true, true);
                }
            }
        }
    }
    for l in 245..=252usize {
        for p in 0..=40usize {
            if !ctx.mine(item) {
                item += 1;
                continue;
            }
            item += 1;
            for t in [0usize, 1, 2, 5, 8] {
                let input = inputs::b256_three_part(p, l, t);
                eval(ctx, &EncCase { input, list: "default".into(), mask: 63, macros: false, fnc1: false, eci: None, order: 0, prelude: 0, skipdef: false, entry: 0 }, "base256_boundary_three_part", true, true);
            }
        }
    }
    // macro envelope in tiny single-symbol lists (strict): header + trailer must not count against the capacity
    for (ri, r) in cat::CAT.iter().enumerate() {
        if r.data > 44 || !ctx.mine(ri) {
            continue;
        }
        for head in [inputs::MACRO05, inputs::MACRO06] {
            for kind in 0..3 {
                for delta in 0..4usize {
                    let blen = match kind {
                        0 => (2 * (r.data - 1)).saturating_sub(delta),           // digits
                        1 => ((r.data - 2) * 3 / 2).saturating_sub(delta),       // upper case (C40)
                        _ => (r.data - 1).saturating_sub(delta),                 // mixed ASCII
                    };
                    let body: Vec<u8> = (0..blen).map(|i| match kind { 0 => b'0' + (i % 10) as u8, 1 => b'A' + (i % 26) as u8, _ => b"aA~b{Z|"[i % 7] }).collect();
                    let input = [head, &body[..], inputs::TRAIL].concat();
                    eval(ctx, &EncCase { input, list: r.name.into(), mask: 63, macros: true, fnc1: false, eci: None, order: 0, prelude: 0, skipdef: false, entry: 0 }, "macro_envelope_small_lists", true, true);
                }
            }
        }
    }
    // structured three-run family (deterministic, no generator involved): class A x a, class B x b, class C x c with
    // adjacent classes different; run lengths around the thresholds the planner's look-ahead heuristics use (digit
    // runs 1..9 in particular). Judged like the fixed corpus: strictly, exact cases.
    {
        let total = family3_count();
        let mut i = ctx.shard;
        while i < total {
            let c = family3_case(i);
            eval(ctx, &c, "structured_three_run_family", true, true);
            i += ctx.nshards;
        }
    }
    // the same kind of family under mode sets without ASCII (reduced lengths; deterministic, strict, exact cases)
    {
        let total = family3n_count();
        let mut i = ctx.shard;
        while i < total {
            let c = family3n_case(i);
            eval(ctx, &c, "structured_three_run_family_without_ascii", true, true);
            i += ctx.nshards;
        }
    }
    // fixed corpus (independent of VERIF_SEED and of the shard count): violations are keyed by exact case
    let ncorpus = 60_000;
    for i in 0..ncorpus {
        if !ctx.mine(i) {
            continue;
        }
        let mut r = crate::rng::Rng::new(0xC10C10, "C10-corpus", i as u64);
        let c = frozen_case_c10(&mut r, 64);
        eval(ctx, &c, "fixed_corpus", true, true);
    }
    ctx.notes.push(format!("fixed corpus: {} cases derived from a constant seed, identical in every run", ncorpus));
    // seed-dependent exploration
    let n = ctx.budget(100_000, 10_000_000);
    for _ in 0..n {
        let mut r = ctx.rng.clone();
        let mut c = gen_case_c10(&mut r, 3116);
        ctx.rng = r;
        match ctx.rng.below(12) {
            0 => {
                // macro-format messages with macros on: the envelope costs one codeword
                c.input = inputs::macro_material(&mut ctx.rng, 40);
                c.macros = true;
                if ctx.rng.chance(1, 2) {
                    c.list = ctx.rng.pick(&cat::CAT[..20]).name.to_string();
                }
            }
            1 => c.fnc1 = true,
            _ => {}
        }
        let use_ropt = c.input.len() <= 300 || (c.input.len() <= 1000 && ctx.rng.chance(1, 4));
        eval(ctx, &c, "generated", use_ropt, false);
    }
}

// ---- deterministic three-run family (FROZEN: the exact known-finding keys depend on it) ----
const F3_CLASSES: [&[u8]; 7] = [b"abcdefghijklmnopqrstuvwxyz", b"ABCDEFGHIJKLMNOPQRSTUVWXYZ", b"1234567890", b"*>", b".,-/:", b" ", &[0xE9, 0xFC, 0x80]];
const F3_A: [usize; 8] = [0, 1, 2, 3, 4, 6, 9, 12];
const F3_B: [usize; 9] = [1, 2, 3, 4, 5, 6, 7, 8, 9];
const F3_C: [usize; 5] = [0, 1, 2, 4, 5];
pub fn family3_count() -> usize {
    7 * 6 * 6 * F3_A.len() * F3_B.len() * F3_C.len()
}
pub fn family3_case(mut i: usize) -> EncCase {
    let c = F3_C[i % F3_C.len()];
    i /= F3_C.len();
    let b = F3_B[i % F3_B.len()];
    i /= F3_B.len();
    let a = F3_A[i % F3_A.len()];
    i /= F3_A.len();
    // class triple with A != B and B != C
    let kc = i % 6;
    i /= 6;
    let kb = i % 6;
    i /= 6;
    let ca = i % 7;
    let cb = (ca + 1 + kb) % 7;
    let cc = (cb + 1 + kc) % 7;
    let mut input = Vec::with_capacity(a + b + c);
    for (cls, n, off) in [(ca, a, 0usize), (cb, b, 3), (cc, c, 5)] {
        let al = F3_CLASSES[cls];
        for j in 0..n {
            input.push(al[(j + off) % al.len()]);
        }
    }
    EncCase { input, list: "default".to_string(), mask: 63, macros: false, fnc1: false, eci: None, order: 0, prelude: 0, skipdef: false, entry: 0 }
}

const F3N_MASKS: [u8; 6] = [6, 38, 36, 48, 34, 62];
const F3N_A: [usize; 4] = [0, 3, 6, 9];
const F3N_B: [usize; 4] = [1, 3, 6, 9];
const F3N_C: [usize; 3] = [0, 2, 5];
pub fn family3n_count() -> usize {
    F3N_MASKS.len() * 7 * 6 * 6 * F3N_A.len() * F3N_B.len() * F3N_C.len()
}
pub fn family3n_case(mut i: usize) -> EncCase {
    let mask = F3N_MASKS[i % F3N_MASKS.len()];
    i /= F3N_MASKS.len();
    let c = F3N_C[i % F3N_C.len()];
    i /= F3N_C.len();
    let b = F3N_B[i % F3N_B.len()];
    i /= F3N_B.len();
    let a = F3N_A[i % F3N_A.len()];
    i /= F3N_A.len();
    let kc = i % 6;
    i /= 6;
    let kb = i % 6;
    i /= 6;
    let ca = i % 7;
    let cb = (ca + 1 + kb) % 7;
    let cc = (cb + 1 + kc) % 7;
    let mut input = Vec::with_capacity(a + b + c);
    for (cls, n, off) in [(ca, a, 0usize), (cb, b, 3), (cc, c, 5)] {
        let al = F3_CLASSES[cls];
        for j in 0..n {
            input.push(al[(j + off) % al.len()]);
        }
    }
    EncCase { input, list: "default".to_string(), mask, macros: false, fnc1: false, eci: None, order: 0, prelude: 0, skipdef: false, entry: 0 }
}

fn gen_small_r(rng: &mut crate::rng::Rng, max: usize) -> Vec<u8> {
    let n = rng.range(1, max);
    match rng.below(5) {
        0 => {
            let k = rng.range(1, 3);
            let cls: Vec<Class> = (0..k).map(|_| *rng.pick(&inputs::CORE)).collect();
            let mean = rng.range(1, 6);
            let mut v = Vec::new();
            while v.len() < n {
                let c = *rng.pick(&cls);
                for _ in 0..rng.geo(mean) {
                    v.push(inputs::class_char(rng, c));
                }
            }
            v.truncate(n);
            v
        }
        1 => {
            let c = *rng.pick(&inputs::CORE);
            let k = rng.range(1, 8).min(n);
            let mut v: Vec<u8> = (0..n - k).map(|_| inputs::class_char(rng, c)).collect();
            v.extend((0..k).map(|_| inputs::class_char(rng, Class::Digit)));
            v
        }
        _ => {
            let mut v = inputs::gen_input(rng, max);
            v.truncate(max);
            v
        }
    }
}

pub fn gen_case_c10(rng: &mut crate::rng::Rng, max_len: usize) -> EncCase {
    let input = match rng.below(10) {
        0..=6 => gen_small_r(rng, 40.min(max_len)),
        7 | 8 => gen_small_r(rng, 90.min(max_len)),
        _ => inputs::gen_input(rng, max_len),
    };
    let (list, mask) = match rng.below(6) {
        0 | 1 => ("default".to_string(), 63u8),
        2 => ("all".to_string(), 63),
        3 => (rng.pick(&cat::CAT[..40]).name.to_string(), 63),
        4 => (inputs::gen_list_spec(rng), inputs::gen_mask(rng) | 1),
        _ => (inputs::gen_list_spec(rng), inputs::gen_mask(rng)),
    };
    EncCase { input, list, mask, macros: false, fnc1: false, eci: None, order: 0, prelude: 0, skipdef: false, entry: 0 }
}

// ---- frozen copies used for the fixed corpus only (see gen/frozen.rs) ----
fn frozen_small_r(rng: &mut crate::rng::Rng, max: usize) -> Vec<u8> {
    let n = rng.range(1, max);
    match rng.below(5) {
        0 => {
            let k = rng.range(1, 3);
            let cls: Vec<crate::gen::frozen::Class> = (0..k).map(|_| *rng.pick(&crate::gen::frozen::CORE)).collect();
            let mean = rng.range(1, 6);
            let mut v = Vec::new();
            while v.len() < n {
                let c = *rng.pick(&cls);
                for _ in 0..rng.geo(mean) {
                    v.push(crate::gen::frozen::class_char(rng, c));
                }
            }
            v.truncate(n);
            v
        }
        1 => {
            let c = *rng.pick(&crate::gen::frozen::CORE);
            let k = rng.range(1, 8).min(n);
            let mut v: Vec<u8> = (0..n - k).map(|_| crate::gen::frozen::class_char(rng, c)).collect();
            v.extend((0..k).map(|_| crate::gen::frozen::class_char(rng, crate::gen::frozen::Class::Digit)));
            v
        }
        _ => {
            let mut v = crate::gen::frozen::gen_input(rng, max);
            v.truncate(max);
            v
        }
    }
}

pub fn frozen_case_c10(rng: &mut crate::rng::Rng, max_len: usize) -> EncCase {
    let input = match rng.below(10) {
        0..=6 => frozen_small_r(rng, 40.min(max_len)),
        7 | 8 => frozen_small_r(rng, 90.min(max_len)),
        _ => crate::gen::frozen::gen_input(rng, max_len),
    };
    let (list, mask) = match rng.below(6) {
        0 | 1 => ("default".to_string(), 63u8),
        2 => ("all".to_string(), 63),
        3 => (rng.pick(&cat::CAT[..40]).name.to_string(), 63),
        4 => (crate::gen::frozen::gen_list_spec(rng), crate::gen::frozen::gen_mask(rng) | 1),
        _ => (crate::gen::frozen::gen_list_spec(rng), crate::gen::frozen::gen_mask(rng)),
    };
    EncCase { input, list, mask, macros: false, fnc1: false, eci: None, order: 0, prelude: 0, skipdef: false, entry: 0 }
}

pub fn replay(ctx: &mut Ctx, case: &Case) {
    let c = EncCase::from_case(case);
    let use_ropt = c.input.len() <= 1000;
    eval(ctx, &c, "replay", use_ropt, true);
}
