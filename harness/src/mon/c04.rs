//! C04 — the decoder accepts every standard-conformant codeword stream (programs = mode-switch
//! scripts run by the independent encoder R-ENC).
use crate::ctx::{guard, Case, Ctx};
use crate::gen::inputs::{self, Class};
use crate::json::J;
use crate::refimpl::cat::CAT;
use crate::refimpl::dec::{self, Mode};
use crate::refimpl::enc::{self, Header, Script};
use crate::rng::{hash64, Rng};
use datamatrix::data::decode_data;

fn mode_from(s: &str) -> Option<Mode> {
    Mode::ALL.iter().copied().find(|m| m.name() == s)
}

pub fn script_to_case(input: &[u8], sc: &Script) -> Case {
    Case::new("script")
        .bytes("input", input)
        .with("runs", sc.runs.iter().map(|(m, n)| format!("{}:{}", m.name(), n)).collect::<Vec<_>>().join(","))
        .with("header", format!("{:?}", sc.header))
        .with("pair", sc.pair_digits as u8)
        .with("len0", sc.b256_len0 as u8)
        .with("implicit", sc.implicit_unlatch as u8)
        .with("ipair", sc.implicit_pair as u8)
        .with("t254", sc.trailing_254 as u8)
        .with("cap", sc.cap)
}

pub fn script_from_case(c: &Case) -> (Vec<u8>, Script) {
    let runs = c.get("runs").unwrap_or("").split(',').filter(|s| !s.is_empty()).filter_map(|s| s.split_once(':')).filter_map(|(m, n)| Some((mode_from(m)?, n.parse().ok()?))).collect();
    let header = match c.get("header") {
        Some("Macro05") => Header::Macro05,
        Some("Macro06") => Header::Macro06,
        Some("Fnc1") => Header::Fnc1,
        _ => Header::None,
    };
    (c.get_bytes("input"), Script { runs, header, eci: None, pair_digits: c.get_bool("pair"), b256_len0: c.get_bool("len0"), implicit_unlatch: c.get_bool("implicit"), implicit_pair: c.get_bool("ipair"), trailing_254: c.get_bool("t254"), cap: c.get_usize("cap") })
}

pub fn expected(input: &[u8], h: Header) -> Vec<u8> {
    match h {
        Header::Macro05 => [dec::MACRO05_HEAD, input, dec::MACRO_TRAIL].concat(),
        Header::Macro06 => [dec::MACRO06_HEAD, input, dec::MACRO_TRAIL].concat(),
        _ => input.to_vec(),
    }
}

/// returns true if the script was legal (a stream was produced and judged)
pub fn eval(ctx: &mut Ctx, input: &[u8], sc: &Script, tag: &str) -> bool {
    let (w, forms) = match enc::encode(input, sc) {
        Ok(x) => x,
        Err(_) => {
            ctx.count("scripts.illegal_discarded");
            return false;
        }
    };
    let want = expected(input, sc.header);
    // R-ENC's output must be accepted by R-DEC, otherwise the harness is at fault (inconclusive, not a violation)
    match dec::decode(&w) {
        Ok(d) if d.bytes == want && d.l1_uses == 0 => {}
        other => {
            ctx.harness_error(format!("R-DEC disagrees with R-ENC on {} : {:?}", sc.describe(), other.map(|d| d.bytes.len())));
            return false;
        }
    }
    ctx.eval();
    let case = || script_to_case(input, sc);
    match guard(|| decode_data(&w)) {
        Err(p) => ctx.violation("decode_panic", &case(), format!("{} ; stream {:?}", p, &w[..w.len().min(40)])),
        Ok(Err(e)) => ctx.violation("conformant_stream_rejected", &case(), format!("{:?} ; script {} ; stream {:?}", e, sc.describe(), &w[..w.len().min(40)])),
        Ok(Ok(out)) => {
            if out != want {
                let p = out.iter().zip(&want).position(|(a, b)| a != b).unwrap_or(out.len().min(want.len()));
                ctx.violation("conformant_stream_misdecoded", &case(), format!("decoded {} bytes, expected {}, first difference at {} ; script {}", out.len(), want.len(), p, sc.describe()));
            } else {
                ctx.count("scripts.decoded_ok");
                ctx.count(&format!("workload.{}", tag));
                for t in &forms.tags {
                    ctx.count(&format!("form.{}", t));
                }
                for (m, _) in &sc.runs {
                    ctx.count(&format!("mode.{}", m.name()));
                }
                for wdw in sc.runs.windows(2) {
                    ctx.count(&format!("transition.{}>{}", wdw[0].0.name(), wdw[1].0.name()));
                }
                if sc.header != Header::None {
                    ctx.count(&format!("header.{:?}", sc.header));
                }
                if !sc.pair_digits {
                    ctx.count("digits_unpaired");
                }
                ctx.nontrivial(hash64(&w));
                ctx.sample(|| J::obj().set("input", J::s(crate::util::printable(input))).set("script", J::s(sc.describe())).set("stream", J::s(format!("{:?}", &w[..w.len().min(30)]))));
                // the same conformant stream presented as a printed symbol: error codewords and module placement by the
                // crate, then the whole-symbol decoder (always for multi-block sizes, every 8th stream otherwise)
                let h = hash64(&w);
                let sizes: Vec<&crate::refimpl::cat::Row> = CAT.iter().filter(|r| r.data == w.len()).collect();
                if sc.eci.is_none() && !sizes.is_empty() && (w.len() >= 204 || h % 8 == 0) {
                    let r = sizes[(h >> 8) as usize % sizes.len()];
                    let size = r.size;
                    let res = guard(|| {
                        let mut all = w.clone();
                        all.extend(datamatrix::errorcode::encode_error(&w, size));
                        let bm = datamatrix::placement::MatrixMap::<bool>::new_with_codewords(&all, size).bitmap();
                        datamatrix::DataMatrix::decode(bm.bits(), bm.width())
                    });
                    match res {
                        Err(p) => ctx.violation("decode_panic", &case(), format!("whole-symbol decode of {}: {}", r.name, p)),
                        Ok(Err(e)) => ctx.violation("conformant_stream_rejected", &case(), format!("whole-symbol decode of {}: {:?} ; script {}", r.name, e, sc.describe())),
                        Ok(Ok(out)) if out != want => ctx.violation("conformant_stream_misdecoded", &case(), format!("whole-symbol decode of {}: {} bytes, expected {} ; script {}", r.name, out.len(), want.len(), sc.describe())),
                        Ok(Ok(_)) => {
                            ctx.count("symbol_path.ok");
                            ctx.count(&format!("symbol_path.blocks{}", r.blocks));
                        }
                    }
                }
            }
        }
    }
    true
}

fn caps() -> Vec<usize> {
    let mut c: Vec<usize> = CAT.iter().map(|r| r.data).collect();
    c.sort();
    c.dedup();
    c
}

/// try the script at the smallest capacity that makes it legal, a random larger one and the largest
pub fn eval_caps(ctx: &mut Ctx, input: &[u8], base: &Script, tag: &str) {
    let caps = caps();
    let lower = input.len() / 2;
    let mut found = None;
    for (i, c) in caps.iter().enumerate() {
        if *c < lower {
            continue;
        }
        let sc = Script { cap: *c, ..base.clone() };
        // probe legality without judging twice
        if enc::encode(input, &sc).is_ok() {
            eval(ctx, input, &sc, tag);
            found = Some(i);
            break;
        }
    }
    if let Some(i) = found {
        if i + 1 < caps.len() {
            // the next capacities exercise "one / two / few symbol characters left" variants
            let sc = Script { cap: caps[i + 1], ..base.clone() };
            eval(ctx, input, &sc, tag);
            let j = i + 1 + ctx.rng.below(caps.len() - i - 1);
            eval(ctx, input, &Script { cap: caps[j], ..base.clone() }, tag);
        }
        if ctx.rng.chance(1, 8) {
            eval(ctx, input, &Script { cap: 1558, ..base.clone() }, tag);
        }
    } else {
        ctx.count("scripts.no_capacity_fits");
    }
}

fn legal_modes_for(chars: &[u8]) -> Vec<Mode> {
    let mut v = vec![Mode::Ascii, Mode::C40, Mode::Text, Mode::Base256];
    if chars.iter().all(|c| enc::x12_value(*c).is_some()) {
        v.push(Mode::X12);
    }
    if chars.iter().all(|c| enc::edifact_ok(*c)) {
        v.push(Mode::Edifact);
    }
    v
}

fn rand_script(rng: &mut Rng, input: &[u8]) -> Script {
    let n = input.len();
    let mut runs: Vec<(Mode, usize)> = Vec::new();
    let mut off = 0;
    while off < n {
        let mut len = match rng.below(4) {
            0 => rng.range(1, 4),
            1 => rng.range(1, 12),
            2 => rng.geo(10),
            _ => n - off,
        }
        .min(n - off);
        let mut modes = legal_modes_for(&input[off..off + len]);
        if let Some((m, _)) = runs.last() {
            if *m != Mode::Base256 {
                modes.retain(|x| x != m);
            }
        }
        let m = *rng.pick(&modes);
        // align triple/quadruple modes so that the script is more often legal
        if matches!(m, Mode::X12) && off + len < n {
            len = (len / 3 * 3).max(3).min(n - off);
        }
        runs.push((m, len));
        off += len;
    }
    // merge accidental equal neighbours
    let mut merged: Vec<(Mode, usize)> = Vec::new();
    for r in runs {
        match merged.last_mut() {
            Some(l) if l.0 == r.0 && r.0 != Mode::Base256 => l.1 += r.1,
            _ => merged.push(r),
        }
    }
    Script {
        runs: merged,
        header: match rng.below(10) {
            0 => Header::Macro05,
            1 => Header::Macro06,
            2 => Header::Fnc1,
            _ => Header::None,
        },
        eci: None,
        pair_digits: !rng.chance(1, 4),
        b256_len0: rng.chance(1, 2),
        implicit_unlatch: !rng.chance(1, 4),
        implicit_pair: false,
        trailing_254: rng.chance(1, 2),
        cap: 0,
    }
}

/// all compositions of n into at most `maxparts` parts
fn compositions(n: usize, maxparts: usize) -> Vec<Vec<usize>> {
    fn rec(n: usize, maxparts: usize, cur: &mut Vec<usize>, out: &mut Vec<Vec<usize>>) {
        if n == 0 {
            out.push(cur.clone());
            return;
        }
        if cur.len() == maxparts {
            return;
        }
        for first in 1..=n {
            cur.push(first);
            rec(n - first, maxparts, cur, out);
            cur.pop();
        }
    }
    let mut out = Vec::new();
    rec(n, maxparts, &mut Vec::new(), &mut out);
    out
}

const SHORTS: &[&[u8]] = &[
    b"ABC12345", b"ABCDEF", b"AB1", b"A", b"12", b"123", b"aB*\r>1 2", b"abcABC12", b"\x80\xff\x01A1a", b"*>\r*>\r12", b"DATA1234", b"!@[]^_:;", b"`{|}~\x7fab", b"AIMAIMAI", b"  0  0  ", b"99999999", b"A1B2C3D4", b"\xa0\xb1ABC\xe9", b"Ab", b"....AAAA",
];

pub fn run(ctx: &mut Ctx) {
    let thorough = ctx.is_thorough();
    // bounded-exhaustive: all segmentations into <= 4 runs over all legal mode assignments
    let n_short = if thorough { SHORTS.len() } else { 12 };
    let mut item = 0usize;
    for s in &SHORTS[..n_short] {
        for comp in compositions(s.len(), if thorough { 4 } else { 3 }) {
            // enumerate mode assignments
            let k = comp.len();
            let total = 6usize.pow(k as u32);
            for code in 0..total {
                if !ctx.mine(item) {
                    item += 1;
                    continue;
                }
                item += 1;
                let mut runs = Vec::new();
                let mut c = code;
                let mut ok = true;
                for (i, len) in comp.iter().enumerate() {
                    let m = Mode::ALL[c % 6];
                    c /= 6;
                    if i > 0 && runs.last().map(|r: &(Mode, usize)| r.0) == Some(m) && m != Mode::Base256 {
                        ok = false;
                        break;
                    }
                    runs.push((m, *len));
                }
                if !ok {
                    continue;
                }
                for variant in 0..4 {
                    let variant_t254 = variant & 1 == 1;
                    let base = Script { runs: runs.clone(), header: Header::None, eci: None, pair_digits: variant & 1 == 0, b256_len0: variant & 2 != 0, implicit_unlatch: true, implicit_pair: false, trailing_254: variant_t254, cap: 0 };
                    eval_caps(ctx, s, &base, "segmentations_exhaustive");
                }
            }
        }
    }
    ctx.exhaustive.insert(format!("{}_short_strings_x_all_segmentations_x_all_mode_assignments", n_short), true);
    // specific forms named by the property
    if ctx.shard == 0 {
        let base = Script { runs: vec![], header: Header::None, eci: None, pair_digits: true, b256_len0: false, implicit_unlatch: true, implicit_pair: false, trailing_254: true, cap: 0 };
        for n in [1usize, 2, 249, 250, 251, 499, 500, 1000, 1554, 1555] {
            let input: Vec<u8> = (0..n).map(|i| (i * 7 % 256) as u8).collect();
            eval_caps(ctx, &input, &Script { runs: vec![(Mode::Base256, n)], ..base.clone() }, "base256_length_field_edges");
            eval_caps(ctx, &input, &Script { runs: vec![(Mode::Base256, n)], b256_len0: true, ..base.clone() }, "base256_length_field_edges");
            let mut inp2 = b"AB".to_vec();
            inp2.extend_from_slice(&input);
            inp2.extend_from_slice(b"12");
            eval_caps(ctx, &inp2, &Script { runs: vec![(Mode::Ascii, 2), (Mode::Base256, n), (Mode::Ascii, 2)], ..base.clone() }, "base256_length_field_edges");
        }
        // pad runs of every length mod 253: one ASCII char in every capacity, and long pads in 144x144
        for c in caps() {
            eval(ctx, b"A", &Script { runs: vec![(Mode::Ascii, 1)], cap: c, ..base.clone() }, "pad_runs");
        }
        for n in 1..=300usize {
            let input: Vec<u8> = vec![b'a'; n];
            eval(ctx, &input, &Script { runs: vec![(Mode::Ascii, n)], cap: 1558, ..base.clone() }, "pad_runs");
        }
    }
    // every C40 / Text / X12 codeword pair that a triple of base-set characters can produce (40^3 per mode;
    // shift-led triples for C40/Text use a representative of each shift set)
    {
        let base = Script { runs: vec![], header: Header::None, eci: None, pair_digits: true, b256_len0: false, implicit_unlatch: true, implicit_pair: false, trailing_254: true, cap: 0 };
        let c40_alpha: Vec<u8> = b" 0123456789ABCDEFGHIJKLMNOPQRSTUVWXYZ".to_vec();
        let text_alpha: Vec<u8> = b" 0123456789abcdefghijklmnopqrstuvwxyz".to_vec();
        let x12_alpha: Vec<u8> = b"\r*> 0123456789ABCDEFGHIJKLMNOPQRSTUVWXYZ".to_vec();
        let mut item = 0usize;
        for (mode, alpha) in [(Mode::C40, &c40_alpha), (Mode::Text, &text_alpha), (Mode::X12, &x12_alpha)] {
            for a in alpha.iter() {
                for b in alpha.iter() {
                    if !ctx.mine(item) {
                        item += 1;
                        continue;
                    }
                    item += 1;
                    for c in alpha.iter() {
                        let input = [*a, *b, *c, b'Q', b'Q', b'Q'];
                        // triple first, then a second triple, capacity 8 (latch + 4 + unlatch + pads)
                        eval(ctx, &input, &Script { runs: vec![(mode, 6)], cap: 8, ..base.clone() }, "all_base_triples");
                    }
                }
            }
        }
        ctx.exhaustive.insert("all_base_set_triples_c40_text_x12".into(), true);
        // every single ASCII codeword value as the tail after the implicit forms
        for t in 0..=255u8 {
            if !ctx.mine(t as usize) {
                continue;
            }
            for u in [b'A', b'{', b'~', b'1', 0x80, 0xFF, t] {
                // EDIFACT, then <= 2 symbol characters in ASCII without Unlatch
                let mut inp = b"ABCD".to_vec();
                inp.push(t);
                eval(ctx, &inp, &Script { runs: vec![(Mode::Edifact, 4), (Mode::Ascii, 1)], cap: 5, ..base.clone() }, "tail_codeword_sweep");
                let mut inp = b"ABCDEFGHIJKL".to_vec();
                inp.extend_from_slice(&[t, u]);
                // 1 latch + 9 + 2 = 12 codewords: exactly the 16x16 symbol, two symbol characters left after the run
                eval(ctx, &inp, &Script { runs: vec![(Mode::Edifact, 12), (Mode::Ascii, 2)], pair_digits: false, cap: 12, ..base.clone() }, "tail_codeword_sweep");
                eval(ctx, &[&b"ABCDEFGHIJKL"[..], &[u, t][..]].concat(), &Script { runs: vec![(Mode::Edifact, 12), (Mode::Ascii, 2)], pair_digits: false, cap: 12, ..base.clone() }, "tail_codeword_sweep");
                // a latch directly in front of the end-of-symbol tail (empty run; legal by the letter of the end-of-symbol
                // rules although no known encoder emits it): ASCII, latch, then one / two symbol characters in ASCII
                for mode in [Mode::C40, Mode::Text, Mode::X12] {
                    eval(ctx, &[b'A', t], &Script { runs: vec![(Mode::Ascii, 1), (mode, 0), (Mode::Ascii, 1)], cap: 3, ..base.clone() }, "empty_run_before_tail");
                    eval(ctx, &[b'A', b'B', b'C', t], &Script { runs: vec![(Mode::Ascii, 3), (mode, 0), (Mode::Ascii, 1)], cap: 5, ..base.clone() }, "empty_run_before_tail");
                }
                eval(ctx, &[b'A', b'B', b'C', t], &Script { runs: vec![(Mode::Ascii, 3), (Mode::Edifact, 0), (Mode::Ascii, 1)], cap: 5, ..base.clone() }, "empty_run_before_tail");
                eval(ctx, &[b'A', b'B', t, u], &Script { runs: vec![(Mode::Ascii, 2), (Mode::Edifact, 0), (Mode::Ascii, 2)], pair_digits: false, cap: 5, ..base.clone() }, "empty_run_before_tail");
                // C40 / Text / X12: unlatch + ASCII at the end (rule c), implicit (rule d), and 254 + two codewords
                for mode in [Mode::C40, Mode::Text, Mode::X12] {
                    let mut inp = b"AAA".to_vec();
                    if mode == Mode::Text {
                        inp = b"aaa".to_vec();
                    }
                    inp.push(t);
                    eval(ctx, &inp, &Script { runs: vec![(mode, 3), (Mode::Ascii, 1)], cap: 5, ..base.clone() }, "tail_codeword_sweep");
                    eval(ctx, &inp, &Script { runs: vec![(mode, 3), (Mode::Ascii, 1)], cap: 8, ..base.clone() }, "tail_codeword_sweep");
                    inp.push(u);
                    eval(ctx, &inp, &Script { runs: vec![(mode, 3), (Mode::Ascii, 2)], pair_digits: false, cap: 8, ..base.clone() }, "tail_codeword_sweep");
                }
            }
        }
    }
    // Macro 05/06 symbols whose body ends with RS EOT, is itself an envelope, or contains header pieces
    {
        let base = Script { runs: vec![], header: Header::None, eci: None, pair_digits: true, b256_len0: false, implicit_unlatch: true, implicit_pair: false, trailing_254: true, cap: 0 };
        let bodies: Vec<Vec<u8>> = vec![
            b"\x1e\x04".to_vec(), b"AB\x1e\x04".to_vec(), b"ABC\x1e\x04".to_vec(), b"\x04".to_vec(), b"\x1e".to_vec(), b"12\x1e\x04\x1e\x04".to_vec(),
            [dec::MACRO05_HEAD, &b"X"[..], dec::MACRO_TRAIL].concat(), [dec::MACRO06_HEAD, &b"X"[..], dec::MACRO_TRAIL].concat(), [dec::MACRO05_HEAD, &b"XY"[..]].concat(), dec::MACRO05_HEAD.to_vec(),
        ];
        let mut item = 0usize;
        for body in &bodies {
            for header in [Header::Macro05, Header::Macro06, Header::None, Header::Fnc1] {
                for mode in Mode::ALL {
                    if ctx.mine(item) {
                        let n = body.len();
                        let mut variants: Vec<Vec<(Mode, usize)>> = vec![vec![(mode, n)]];
                        if n >= 3 {
                            variants.push(vec![(Mode::Ascii, 1), (mode, n - 1)]);
                            variants.push(vec![(mode, n - 2), (Mode::Ascii, 2)]);
                            variants.push(vec![(mode, n - 1), (Mode::Ascii, 1)]);
                        }
                        for runs in variants {
                            if runs.windows(2).any(|w| w[0].0 == w[1].0) {
                                continue;
                            }
                            eval_caps(ctx, body, &Script { runs, header, ..base.clone() }, "macro_body_like_envelope");
                        }
                    }
                    item += 1;
                }
            }
        }
    }
    let n = ctx.budget(500_000, 15_000_000);
    for i in 0..n {
        let input = match i % 4 {
            0 => inputs::gen_input(&mut ctx.rng, 60),
            1 => {
                let k = ctx.rng.range(1, 3);
                let cls: Vec<Class> = (0..k).map(|_| *ctx.rng.pick(&inputs::CORE)).collect();
                let len = ctx.rng.range(1, 40);
                (0..len).map(|_| { let cl = *ctx.rng.pick(&cls); inputs::class_char(&mut ctx.rng, cl) }).collect()
            }
            2 => inputs::gen_input(&mut ctx.rng, 400),
            _ => {
                let len = ctx.rng.range(1, 24);
                (0..len).map(|_| *ctx.rng.pick(b"ABC123 *>\r")).collect()
            }
        };
        if input.is_empty() {
            continue;
        }
        let sc = rand_script(&mut ctx.rng, &input);
        eval_caps(ctx, &input, &sc, "random_scripts");
    }
}

pub fn replay(ctx: &mut Ctx, case: &Case) {
    let (input, sc) = script_from_case(case);
    if !eval(ctx, &input, &sc, "replay") {
        ctx.harness_error("replayed script is not legal under R-ENC");
    }
}
