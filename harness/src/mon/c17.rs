//! C17 — the vector path renders exactly the dark modules; pixel iterator; Unicode rendering.
use crate::ctx::{guard, Case, Ctx};
use crate::gen::bitmaps;
use crate::json::J;
use crate::refimpl::cat::CAT;
use crate::refimpl::raster;
use crate::rng::hash64;
use datamatrix::placement::{Bitmap, PathSegment};

fn case_for(bits: &[bool], w: usize) -> Case {
    let mut s = String::new();
    for ch in bits.chunks(4) {
        let mut v = 0u32;
        for (i, x) in ch.iter().enumerate() {
            if *x {
                v |= 8 >> i;
            }
        }
        s.push(std::char::from_digit(v, 16).unwrap());
    }
    Case::new("bitmap").with("width", w).with("len", bits.len()).with("bits", s)
}

pub fn eval(ctx: &mut Ctx, bits: &[bool], w: usize, tag: &str) {
    ctx.eval();
    let h = bits.len() / w;
    let case = || case_for(bits, w);
    let bm = Bitmap::new(bits.iter().copied(), w);
    // pixels(): exactly the dark coordinates in row-major order
    match guard(|| bm.pixels().collect::<Vec<(usize, usize)>>()) {
        Err(p) => return ctx.violation("pixels_panic", &case(), p),
        Ok(px) => {
            let want: Vec<(usize, usize)> = (0..bits.len()).filter(|i| bits[*i]).map(|i| (i % w, i / w)).collect();
            if px != want {
                return ctx.violation("pixels_differ", &case(), format!("{} coordinates, expected {}", px.len(), want.len()));
            }
        }
    }
    // unicode(): (h+2 rounded up to even)/2 lines of w+2 characters decoding to the bitmap inside a light border
    match guard(|| bm.unicode()) {
        Err(p) => return ctx.violation("unicode_panic", &case(), p),
        Ok(s) => {
            // the statement does not fix whether the last line is terminated: accept both
            let mut lines: Vec<&str> = s.split('\n').collect();
            if lines.last().map_or(false, |l| l.is_empty()) {
                lines.pop();
            }
            let nl = (h + 2 + 1) / 2;
            if lines.len() != nl {
                return ctx.violation("unicode_line_count", &case(), format!("{} lines for height {}", lines.len(), h));
            }
            for (li, line) in lines[..nl].iter().enumerate() {
                let chars: Vec<char> = line.chars().collect();
                if chars.len() != w + 2 {
                    return ctx.violation("unicode_line_width", &case(), format!("line {} has {} characters", li, chars.len()));
                }
                for (x, ch) in chars.iter().enumerate() {
                    let (top, bot) = match ch {
                        ' ' => (false, false),
                        '▄' => (false, true),
                        '▀' => (true, false),
                        '█' => (true, true),
                        _ => return ctx.violation("unicode_charset", &case(), format!("character {:?}", ch)),
                    };
                    for (dy, v) in [(0usize, top), (1, bot)] {
                        let y = 2 * li + dy;
                        let inside = x >= 1 && x <= w && y >= 1 && y <= h;
                        let want = inside && bits[(y - 1) * w + (x - 1)];
                        if v != want {
                            return ctx.violation("unicode_differs", &case(), format!("module (row {}, col {}) incl. border", y, x));
                        }
                    }
                }
            }
        }
    }
    if !bits[0] {
        ctx.count("light_topleft(pixels+unicode only)");
        return;
    }
    // path()
    let path = match guard(|| bm.path()) {
        Err(p) => return ctx.violation("path_panic", &case(), p),
        Ok(p) => p,
    };
    match raster::fill(&path, w, h) {
        Err(msg) => return ctx.violation("path_malformed", &case(), msg),
        Ok(r) => {
            if r.bits != bits {
                let d = r.bits.iter().zip(bits).position(|(a, b)| a != b).map(|i| (i / w, i % w));
                return ctx.violation("fill_differs", &case(), format!("even-odd fill differs from the bitmap first at (row,col) {:?}", d));
            }
            ctx.count(&format!("topology.{}", tag));
            ctx.max("max_subpaths", r.subpaths as u64);
            ctx.max("max_segments", r.segments as u64);
            ctx.count_n("subpaths_total", r.subpaths as u64);
            if r.subpaths > 1 {
                ctx.count("multi_subpath_bitmaps");
            }
            let moves = path.iter().filter(|s| matches!(s, PathSegment::Move(..))).count();
            ctx.count_n("moves_total", moves as u64);
            let mut key = w.to_le_bytes().to_vec();
            key.extend(bits.iter().map(|b| *b as u8));
            if bits.len() > 1 {
                ctx.nontrivial(hash64(&key));
            }
            ctx.sample(|| J::obj().set("workload", J::s(tag)).set("w", J::i(w)).set("h", J::i(h)).set("subpaths", J::i(r.subpaths)).set("segments", J::i(r.segments)));
        }
    }
}

pub fn run(ctx: &mut Ctx) {
    // all bitmaps with w*h <= 16 and dark top-left (complete)
    let mut item = 0usize;
    for w in 1..=16usize {
        for h in 1..=16usize {
            if w * h > 16 {
                continue;
            }
            let n = w * h;
            for code in 0..(1u32 << (n - 1)) {
                if ctx.mine(item) {
                    let mut bits = vec![true; n];
                    for i in 1..n {
                        bits[i] = (code >> (i - 1)) & 1 == 1;
                    }
                    eval(ctx, &bits, w, "exhaustive_wh_le_16");
                }
                item += 1;
            }
        }
    }
    ctx.exhaustive.insert("all_bitmaps_w*h_le_16_dark_topleft".into(), true);
    // encoder bitmaps of all 48 sizes
    let per_size = ctx.budget(16 * 30, 16 * 600);
    for r in CAT.iter() {
        for _ in 0..per_size {
            let cw = ctx.rng.bytes(r.total());
            let size = r.size;
            if let Ok((w, bits)) = guard(|| {
                let bm = datamatrix::placement::MatrixMap::new_with_codewords(&cw, size).bitmap();
                (bm.width(), bm.bits().to_vec())
            }) {
                eval(ctx, &bits, w, "encoder_bitmap");
                ctx.count(&format!("size.{}", r.name));
            }
        }
    }
    // large bitmaps (the helpers are advertised for other symbologies too): dimensions up to 700
    let nl = ctx.budget(16 * 6, 16 * 60);
    for i in 0..nl {
        let (w, h) = match i % 4 {
            0 => (ctx.rng.range(151, 300), ctx.rng.range(151, 300)),
            1 => (ctx.rng.range(300, 700), ctx.rng.range(2, 60)),
            2 => (ctx.rng.range(2, 60), ctx.rng.range(300, 700)),
            _ => (ctx.rng.range(177, 260), ctx.rng.range(177, 260)),
        };
        let dens = *ctx.rng.pick(&[5usize, 30, 50, 70, 95]);
        let mut bits: Vec<bool> = (0..w * h).map(|_| ctx.rng.chance(dens, 100)).collect();
        bits[0] = true;
        // make sure the far corner region is populated (indices with large row*width products)
        bits[w * h - 1] = true;
        bits[w * h - 2] = i % 2 == 0;
        eval(ctx, &bits, w, "large_bitmap");
    }
    // one very long closed outline walk (> 65 535 unit edges from about 260x260 on)
    let nc = ctx.budget(16 * 3, 16 * 30);
    for i in 0..nc {
        let (w, h) = match i % 3 {
            0 => (ctx.rng.range(260, 420), ctx.rng.range(260, 420)),
            1 => (ctx.rng.range(100, 250), ctx.rng.range(100, 250)),
            _ => (ctx.rng.range(300, 700), ctx.rng.range(120, 300)),
        };
        let (bits, tag) = bitmaps::long_contour(&mut ctx.rng, w, h);
        eval(ctx, &bits, w, tag);
    }
    let n = ctx.budget(400_000, 8_000_000);
    for i in 0..n {
        let maxd = if i % 50 == 0 { 150 } else { 40 };
        let (bits, w, _h, tag) = bitmaps::gen(&mut ctx.rng, maxd, i % 10 != 0);
        eval(ctx, &bits, w, tag);
    }
}

pub fn replay(ctx: &mut Ctx, case: &Case) {
    let bits = super::c08::bits_from_str(case.get("bits").unwrap_or(""), case.get_usize("len"));
    eval(ctx, &bits, case.get_usize("width"), "replay");
}
