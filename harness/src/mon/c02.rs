//! C02 — encoder output is a conformant ISO/IEC 16022 data codeword stream.
use super::enc_common::*;
use crate::ctx::{Case, Ctx};
use crate::gen::inputs;
use crate::refimpl::cat;
use crate::refimpl::dec::{self, Ev, Mode};
use crate::util::rows_from_spec;

pub fn eval(ctx: &mut Ctx, c: &EncCase, tag: &str) {
    ctx.eval();
    let e = match do_encode(c, false) {
        EncOut::Ok(e) => e,
        EncOut::Err(_) => return ctx.count("encode.refused"),
        EncOut::Panic(_) => return ctx.count("encode.panic(C11)"),
        EncOut::BadSpec => return ctx.harness_error("bad list spec"),
    };
    ctx.count("encode.ok");
    let case = || c.to_case("conformance");
    let r = cat::row_of(e.size);
    if !rows_from_spec(&c.list).iter().any(|x| x.name == r.name) {
        return ctx.violation("size_not_in_list", &case(), format!("returned {} which is not in the supplied list", r.name));
    }
    if e.data.len() != r.data || e.all.len() != r.data + r.ecc {
        return ctx.violation("codeword_counts", &case(), format!("{} data + {} error codewords for {}, standard {} + {}", e.data.len(), e.all.len() - e.data.len(), r.name, r.data, r.ecc));
    }
    if e.all[..r.data] != e.data[..] {
        return ctx.violation("data_not_prefix", &case(), "data_codewords() is not a prefix of codewords()");
    }
    let d = match dec::decode(&e.data) {
        Ok(d) => d,
        Err(msg) => return ctx.violation("stream_rejected_by_reference_decoder", &case(), format!("{} ; stream {:?}", msg, &e.data[..e.data.len().min(48)])),
    };
    // header expectations
    if c.fnc1 != d.fnc1_start {
        return ctx.violation("fnc1_header", &case(), format!("FNC1 start requested {}, first-position FNC1 found {}", c.fnc1, d.fnc1_start));
    }
    if d.fnc1_inner > 0 {
        return ctx.violation("spurious_fnc1", &case(), "FNC1 codeword in a position other than the first");
    }
    if d.bytes != c.input {
        let p = d.bytes.iter().zip(&c.input).position(|(a, b)| a != b).unwrap_or(d.bytes.len().min(c.input.len()));
        return ctx.violation("reference_decoder_reads_different_bytes", &case(), format!("reference decoder reads {} bytes, input has {}, first difference at {}", d.bytes.len(), c.input.len(), p));
    }
    // ECI: exactly the requested one, ahead of all data
    match c.eci {
        None => {
            if !d.ecis.is_empty() {
                return ctx.violation("unrequested_eci", &case(), format!("{:?}", d.ecis));
            }
        }
        Some(n) => {
            if d.ecis != vec![(0usize, n)] {
                return ctx.violation("eci_event", &case(), format!("requested ECI {} ahead of the data, stream has {:?}", n, d.ecis));
            }
            ctx.count("eci.checked");
        }
    }
    // padding automaton: R-DEC has verified that after the first 129 only 253-state randomised
    // pads follow up to the end, and 129 is only interpreted as Pad in ASCII mode. Check that the
    // last event before PadStart left the decoder in ASCII mode by an explicit or specified return.
    if let Some(p) = d.pad_start {
        ctx.count("padded_streams");
        let _ = p;
    }
    ctx.count(&format!("workload.{}", tag));
    ctx.count(&format!("size.{}", r.name));
    ctx.count_n("codeword_positions_visited", e.data.len() as u64);
    for ev in &d.events {
        if let Ev::Latch { mode, .. } = ev {
            ctx.count(&format!("latch.{}", mode.name()));
        }
    }
    let _ = Mode::Ascii;
    tag_stream(ctx, &d, e.data.len());
    if is_nontrivial(c, Some(&d)) {
        ctx.nontrivial(c.key());
    }
    ctx.sample(|| c.describe().set("size", crate::json::J::s(r.name)).set("stream_prefix", crate::json::J::s(format!("{:?}", &e.data[..e.data.len().min(24)]))).set("events", crate::json::J::i(d.events.len())));
}

pub fn run(ctx: &mut Ctx) {
    let small_len = if ctx.is_thorough() { 5 } else { 4 };
    let n_small = inputs::count_small(small_len);
    let masks: &[u8] = if ctx.is_thorough() { &[63, 62, 1, 2, 4, 8, 16, 32, 33, 48, 6, 56] } else { &[63, 62, 48] };
    for i in 0..n_small {
        if !ctx.mine(i) {
            continue;
        }
        let s = inputs::small_string(i, small_len);
        for m in masks {
            eval(ctx, &EncCase { input: s.clone(), list: "default".into(), mask: *m, macros: true, fnc1: false, eci: None, order: 0, prelude: 0, skipdef: false, entry: 0 }, "small_scope_exhaustive");
        }
    }
    // three-part family around the Base256 length-field edge (deterministic)
    // end-of-data tail family (deterministic): packed-mode runs of every length 0..=42 x every tail of <= 3 characters
    {
        let step = if ctx.is_thorough() { 1 } else { 2 };
        let mut i = ctx.shard * step;
        while i < inputs::tail_family_count() {
            let input = inputs::tail_family_case(i);
            let list = match i % 5 { 0 => "all", _ => "default" };
            let mask = match i % 7 { 0 => 62u8, 1 => 17, _ => 63 };
            eval(ctx, &EncCase { input, list: list.into(), mask, macros: false, fnc1: false, eci: None, order: 0, prelude: 0, skipdef: false, entry: 0 }, "tail_family");
            i += step * ctx.nshards;
        }
    }
    // magnitude family: long class-pure runs on byte / power-of-two boundaries (deterministic; every 2nd in quick)
    {
        let step = if ctx.is_thorough() { 1 } else { 2 };
        let mut i = ctx.shard * step;
        while i < inputs::magnitude_family_count() {
            let input = inputs::magnitude_family_case(i);
            let list = if i % 3 == 0 { "all" } else { "default" };
            eval(ctx, &EncCase { input, list: list.into(), mask: 63, macros: false, fnc1: false, eci: None, order: 0, prelude: 0, skipdef: false, entry: 0 }, "magnitude_family");
            i += step * ctx.nshards;
        }
    }
    let fam_step = 1;
    let mut i = ctx.shard * fam_step;
    while i < inputs::family_count() {
        let input = inputs::family_case(i);
        let list = if i % 4 == 1 { "all" } else { "default" };
        eval(ctx, &EncCase { input, list: list.into(), mask: 63, macros: i % 2 == 0, fnc1: i % 16 == 5, eci: None, order: 0, prelude: 0, skipdef: false, entry: 0 }, "three_part_family");
        i += fam_step * ctx.nshards;
    }
    let n = ctx.budget(300_000, 30_000_000);
    for i in 0..n {
        let mut c = gen_case(&mut ctx.rng, 3116);
        if i % 5 == 0 {
            c.eci = Some(match ctx.rng.below(8) {
                0 => 0,
                1 => 126,
                2 => 127,
                3 => 16382,
                4 => 16383,
                5 => 999999,
                6 => 26,
                _ => ctx.rng.below(1_000_000) as u32,
            });
        }
        eval(ctx, &c, "generated");
    }
}

pub fn replay(ctx: &mut Ctx, case: &Case) {
    eval(ctx, &EncCase::from_case(case), "replay");
}
