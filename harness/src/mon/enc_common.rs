//! Shared plumbing of the encoder-side monitors (C01 C02 C10 C11 C13 C16 C18).
use crate::ctx::{guard, Case, Ctx};
use crate::gen::inputs;
use crate::refimpl::dec::{self, Decoded, Mode};
use crate::rng::Rng;
use crate::util::{list_from_spec, modes_from_mask};
use datamatrix::data::DataEncodingError;
use datamatrix::{DataMatrixBuilder, SymbolSize};

#[derive(Clone, Debug, PartialEq)]
pub struct EncCase {
    pub input: Vec<u8>,
    pub list: String,
    pub mask: u8,
    pub macros: bool,
    pub fnc1: bool,
    pub eci: Option<u32>,
    /// permutation (0..24) of the order in which the four builder options are applied; the result
    /// must not depend on it
    pub order: u8,
    /// bit mask of "noise" builder calls made *before* the real options (last call must win):
    /// 1 with_fnc1_start(!fnc1), 2 with_macros(!macros), 4 with_encodation_types(other), 8 with_symbol_list(other)
    pub prelude: u8,
    /// leave out the real builder calls whose value equals the builder's default (unless a noise call for
    /// that option was made before): exercises the defaults and "setter called twice" histories
    pub skipdef: bool,
    /// which public entry point is used: 0 the builder; 1 `data::encode_data` (+ `errorcode::encode_error` and
    /// `MatrixMap::new_with_codewords` for the symbol), only without FNC1 start; 2 the wrappers
    /// `DataMatrix::encode` / `encode_gs1`, only with their fixed options (macros on, all modes, no ECI).
    /// An entry that does not apply to the configuration falls back to the builder.
    pub entry: u8,
}

impl EncCase {
    pub fn to_case(&self, kind: &str) -> Case {
        let mut c = Case::new(kind).bytes("input", &self.input).with("list", &self.list).with("mask", self.mask).with("macro", self.macros as u8).with("fnc1", self.fnc1 as u8);
        if let Some(e) = self.eci {
            c = c.with("eci", e);
        }
        if self.order != 0 {
            c = c.with("order", self.order);
        }
        if self.prelude != 0 {
            c = c.with("prelude", self.prelude);
        }
        if self.skipdef {
            c = c.with("sd", 1);
        }
        if self.entry != 0 {
            c = c.with("entry", self.entry);
        }
        c
    }
    pub fn from_case(c: &Case) -> EncCase {
        EncCase {
            input: c.get_bytes("input"),
            list: c.get("list").unwrap_or("default").to_string(),
            mask: c.get_usize("mask") as u8,
            macros: c.get_bool("macro"),
            fnc1: c.get_bool("fnc1"),
            eci: c.get("eci").and_then(|s| s.parse().ok()),
            order: c.get_usize("order") as u8,
            prelude: c.get_usize("prelude") as u8,
            skipdef: c.get_bool("sd"),
            entry: c.get_usize("entry") as u8,
        }
    }
    pub fn key(&self) -> u64 {
        self.to_case("k").key()
    }
    pub fn default_config(&self) -> bool {
        self.list == "default" && self.mask == 63 && !self.fnc1 && self.eci.is_none()
    }
    /// what the decoder is expected to return for this input: the input itself
    pub fn expected(&self) -> &[u8] {
        &self.input
    }
    pub fn describe(&self) -> crate::json::J {
        use crate::json::J;
        J::obj()
            .set("input", J::s(crate::util::printable(&self.input)))
            .set("len", J::i(self.input.len()))
            .set("list", J::s(if self.list.len() > 60 { format!("{}...", &self.list[..60]) } else { self.list.clone() }))
            .set("modes", J::s(crate::util::mask_names(self.mask)))
            .set("macros", J::Bool(self.macros))
            .set("fnc1", J::Bool(self.fnc1))
    }
}

pub struct EncOk {
    pub size: SymbolSize,
    pub data: Vec<u8>,
    pub all: Vec<u8>,
    pub width: usize,
    pub bits: Vec<bool>,
}

pub enum EncOut {
    Ok(EncOk),
    Err(DataEncodingError),
    Panic(String),
    BadSpec,
}

pub fn builder(c: &EncCase) -> Option<DataMatrixBuilder> {
    let list = list_from_spec(&c.list)?;
    // apply the four options in the order given by the permutation index
    let mut idx: Vec<usize> = vec![0, 1, 2, 3];
    let mut code = c.order as usize % 24;
    let mut order = Vec::with_capacity(4);
    for k in (1..=4).rev() {
        order.push(idx.remove(code % k));
        code /= k;
    }
    let mut b = DataMatrixBuilder::new();
    // noise calls first: a builder must forget them once the real option is set
    if c.prelude & 1 != 0 {
        b = b.with_fnc1_start(!c.fnc1);
    }
    if c.prelude & 2 != 0 {
        b = b.with_macros(!c.macros);
    }
    if c.prelude & 4 != 0 {
        b = b.with_encodation_types(modes_from_mask(!c.mask & 63));
    }
    if c.prelude & 8 != 0 {
        b = b.with_symbol_list(datamatrix::SymbolSize::Square10);
    }
    let mut list = Some(list);
    for o in order {
        // in skip-defaults mode a real call is made only if its value differs from the builder default or a
        // noise call for the same option has to be overridden
        let needed = |bit: u8, is_default: bool| !c.skipdef || !is_default || c.prelude & bit != 0;
        b = match o {
            0 if needed(8, c.list == "default") => b.with_symbol_list(list.take().unwrap()),
            1 if needed(4, c.mask == 63) => b.with_encodation_types(modes_from_mask(c.mask)),
            2 if needed(2, c.macros) => b.with_macros(c.macros),
            3 if needed(1, !c.fnc1) => b.with_fnc1_start(c.fnc1),
            _ => b,
        };
    }
    Some(b)
}

impl EncCase {
    /// the entry point really used (see `entry`)
    pub fn effective_entry(&self) -> u8 {
        match self.entry {
            1 if !self.fnc1 => 1,
            2 if self.macros && self.mask == 63 && self.eci.is_none() => 2,
            _ => 0,
        }
    }
}

pub fn do_encode(c: &EncCase, want_bitmap: bool) -> EncOut {
    // for the hang and memory monitors: remember what is about to run
    crate::ctx::trace_case(|| c.to_case("enc").flat());
    match c.effective_entry() {
        1 => {
            let Some(list) = list_from_spec(&c.list) else { return EncOut::BadSpec };
            let (input, eci, mask, macros) = (&c.input, c.eci, c.mask, c.macros);
            return match guard(|| {
                datamatrix::data::encode_data(input, &list, eci, modes_from_mask(mask), macros).map(|(data, size)| {
                    let mut all = data.clone();
                    all.extend(datamatrix::errorcode::encode_error(&data, size));
                    let (width, bits) = if want_bitmap {
                        let bm = datamatrix::placement::MatrixMap::<bool>::new_with_codewords(&all, size).bitmap();
                        (bm.width(), bm.bits().to_vec())
                    } else {
                        (0, vec![])
                    };
                    EncOk { size, data, all, width, bits }
                })
            }) {
                Ok(Ok(e)) => EncOut::Ok(e),
                Ok(Err(e)) => EncOut::Err(e),
                Err(p) => EncOut::Panic(p),
            };
        }
        2 => {
            let Some(list) = list_from_spec(&c.list) else { return EncOut::BadSpec };
            let (input, fnc1) = (&c.input, c.fnc1);
            return match guard(|| {
                (if fnc1 { datamatrix::DataMatrix::encode_gs1(input, list) } else { datamatrix::DataMatrix::encode(input, list) }).map(|dm| {
                    let (width, bits) = if want_bitmap {
                        let bm = dm.bitmap();
                        (bm.width(), bm.bits().to_vec())
                    } else {
                        (0, vec![])
                    };
                    EncOk { size: dm.size, data: dm.data_codewords().to_vec(), all: dm.codewords().to_vec(), width, bits }
                })
            }) {
                Ok(Ok(e)) => EncOut::Ok(e),
                Ok(Err(e)) => EncOut::Err(e),
                Err(p) => EncOut::Panic(p),
            };
        }
        _ => {}
    }
    let Some(b) = builder(c) else { return EncOut::BadSpec };
    let input = &c.input;
    let eci = c.eci;
    match guard(|| {
        b.encode_eci(input, eci).map(|dm| {
            let (width, bits) = if want_bitmap {
                let bm = dm.bitmap();
                (bm.width(), bm.bits().to_vec())
            } else {
                (0, vec![])
            };
            EncOk { size: dm.size, data: dm.data_codewords().to_vec(), all: dm.codewords().to_vec(), width, bits }
        })
    }) {
        Ok(Ok(e)) => EncOut::Ok(e),
        Ok(Err(e)) => EncOut::Err(e),
        Err(p) => EncOut::Panic(p),
    }
}

pub fn gen_case(rng: &mut Rng, max_len: usize) -> EncCase {
    let input = inputs::gen_input(rng, max_len);
    let (list, mask) = if rng.chance(1, 4) { ("default".to_string(), 63) } else { (inputs::gen_list_spec(rng), inputs::gen_mask(rng)) };
    let mut c = EncCase { input, list, mask, macros: rng.chance(1, 2), fnc1: rng.chance(1, 8), eci: None, order: if rng.chance(1, 2) { 0 } else { rng.below(24) as u8 }, prelude: if rng.chance(3, 4) { 0 } else { rng.below(16) as u8 }, skipdef: rng.chance(1, 3), entry: 0 };
    // the other public entry points carry the same promises: use them for a quarter of the cases where they apply
    if rng.chance(1, 4) {
        c.entry = rng.range(1, 2) as u8;
        c.entry = c.effective_entry();
    }
    c
}

/// coverage tags of one stream, from its R-DEC event log
pub fn tag_stream(ctx: &mut Ctx, d: &Decoded, total: usize) {
    for m in d.run_modes() {
        ctx.count(&format!("mode.{}", m.name()));
    }
    let rm = d.run_modes();
    for w in rm.windows(2) {
        ctx.count(&format!("transition.{}>{}", w[0].name(), w[1].name()));
    }
    if let Some(f) = d.end_form {
        ctx.count(&format!("end.{:?}", f));
    }
    if d.macro_cw.is_some() {
        ctx.count(&format!("header.macro{}", if d.macro_cw == Some(236) { "05" } else { "06" }));
    }
    if d.fnc1_start {
        ctx.count("header.fnc1");
    }
    if d.l1_uses > 0 {
        ctx.count("leniency.L1_dangling_shift_pad");
    }
    if d.l2_uses > 0 {
        ctx.count("leniency.L2_trailing_254");
    }
    if d.pad_start.is_some() {
        ctx.count_n("pad_codewords", (total - d.pad_start.unwrap()) as u64);
    }
}

pub fn is_nontrivial(c: &EncCase, d: Option<&Decoded>) -> bool {
    let special = d.map(|d| d.latches.iter().any(|m| *m != Mode::Ascii) || !matches!(d.end_form, Some(dec::EndForm::AsciiPadded) | Some(dec::EndForm::AsciiExact) | None) || d.macro_cw.is_some()).unwrap_or(false);
    special || !c.default_config()
}
