//! C14 — string API round trip with automatic ECI selection.
use crate::ctx::{guard, Case, Ctx};
use crate::json::J;
use crate::refimpl::charset::latin1_printable_char;
use crate::refimpl::dec;
use crate::rng::{hash64, Rng};
use datamatrix::data::{decode_str, latin1_to_utf8, utf8_to_latin1};
use super::enc_common::{builder, EncCase};

pub fn eval(ctx: &mut Ctx, s: &str, macros: bool, tag: &str) {
    // every third string goes through the wrapper DataMatrix::encode_str instead of the builder (where it applies)
    let entry = if macros && s.len() % 3 == 0 { 2 } else { 0 };
    let cfg = EncCase { input: vec![], list: "default".into(), mask: 63, macros, fnc1: false, eci: None, order: 0, prelude: 0, skipdef: false, entry };
    eval_cfg(ctx, s, &cfg, tag)
}

/// `cfg.input` is ignored; the remaining fields configure the builder on which encode_str is called
pub fn eval_cfg(ctx: &mut Ctx, s: &str, cfg: &EncCase, tag: &str) {
    ctx.eval();
    let macros = cfg.macros;
    let case = || {
        let mut c = EncCase { input: s.as_bytes().to_vec(), ..cfg.clone() }.to_case("str");
        c.f.insert("utf8".into(), crate::json::hex(s.as_bytes()));
        c.f.remove("input");
        c
    };
    crate::ctx::trace_case(|| case().flat());
    let use_wrapper = cfg.entry == 2 && cfg.macros && cfg.mask == 63 && !cfg.fnc1;
    let res = if use_wrapper {
        let Some(list) = crate::util::list_from_spec(&cfg.list) else { return ctx.harness_error("bad list spec") };
        ctx.count("entry.DataMatrix::encode_str");
        guard(|| datamatrix::DataMatrix::encode_str(s, list).map(|dm| dm.data_codewords().to_vec()))
    } else {
        let Some(b) = builder(cfg) else { return ctx.harness_error("bad list spec") };
        guard(|| b.encode_str(s).map(|dm| dm.data_codewords().to_vec()))
    };
    let cw = match res {
        Err(_) => return ctx.count("encode.panic(C11)"),
        Ok(Err(_)) => return ctx.count("encode.refused"),
        Ok(Ok(cw)) => cw,
    };
    ctx.count("encode.ok");
    match guard(|| decode_str(&cw)) {
        Err(p) => return ctx.violation("decode_str_panic", &case(), p),
        Ok(Err(e)) => return ctx.violation("decode_str_error", &case(), format!("{:?}; codewords {:?}", e, &cw[..cw.len().min(30)])),
        Ok(Ok(out)) => {
            if out != s {
                let p = out.chars().zip(s.chars()).position(|(a, b)| a != b);
                return ctx.violation("decode_str_differs", &case(), format!("first differing char {:?}, lengths {} vs {}", p, out.chars().count(), s.chars().count()));
            }
        }
    }
    // what is in the stream, according to the independent decoder
    let d = match dec::decode(&cw) {
        Ok(d) => d,
        Err(msg) => return ctx.violation("stream_rejected_by_reference_decoder", &case(), msg),
    };
    if d.fnc1_start != cfg.fnc1 {
        return ctx.violation("fnc1_header", &case(), format!("FNC1 start requested {}, found {}", cfg.fnc1, d.fnc1_start));
    }
    for m in &d.latches {
        if cfg.mask & m.bit() == 0 {
            return ctx.violation("latch_into_disabled_mode", &case(), format!("{}", m.name()));
        }
    }
    if !cfg.default_config() {
        ctx.count("non_default_builder_config");
    }
    let _ = macros;
    let latin = s.chars().all(latin1_printable_char);
    if latin {
        if !d.ecis.is_empty() {
            return ctx.violation("eci_on_latin1_string", &case(), format!("{:?}", d.ecis));
        }
        let want: Vec<u8> = s.chars().map(|c| c as u32 as u8).collect();
        if d.bytes != want {
            return ctx.violation("latin1_payload_differs", &case(), "payload is not the Latin-1 bytes of the string");
        }
        ctx.count("path.latin1");
    } else {
        if d.ecis != vec![(0usize, 26u32)] {
            return ctx.violation("utf8_eci_missing", &case(), format!("expected exactly one ECI 26 ahead of the data, found {:?}", d.ecis));
        }
        if d.bytes != s.as_bytes() {
            return ctx.violation("utf8_payload_differs", &case(), "payload is not the UTF-8 bytes of the string");
        }
        ctx.count("path.utf8_eci");
    }
    if d.macro_cw.is_some() {
        ctx.count("macro_compacted");
    }
    ctx.count(&format!("workload.{}", tag));
    if !s.is_ascii() || d.macro_cw.is_some() || s.chars().any(|c| (c as u32) < 0x20) {
        ctx.nontrivial(hash64(case().flat().as_bytes()));
    }
    ctx.sample(|| J::obj().set("string", J::s(s.chars().take(40).collect::<String>())).set("latin1", J::Bool(latin)).set("codewords", J::i(cw.len())));
}

/// the Latin-1 helpers against ISO 8859-1, one scalar value / byte at a time
pub fn eval_helpers(ctx: &mut Ctx) {
    for u in 0..=0x2FFu32 {
        ctx.eval();
        let ch = char::from_u32(u).unwrap();
        let s = ch.to_string();
        let got = guard(|| utf8_to_latin1(&s));
        let want = if latin1_printable_char(ch) { Some(vec![u as u8]) } else { None };
        // C0/C1 controls are outside the printable repertoire; the statement only asks for agreement with
        // ISO-8859-1, which (as the IANA character set) maps them to themselves: refusal and identity both agree
        let control = u < 0x20 || (0x7F..=0x9F).contains(&u);
        match got {
            Err(p) => ctx.violation("helper_panic", &Case::new("helper_u2l").with("cp", u), p),
            Ok(g) => {
                if control && g == Some(vec![u as u8]) {
                    ctx.count("helper.control_mapped_to_itself(not judged)");
                    ctx.count("helper.utf8_to_latin1_scalars");
                } else if g != want {
                    ctx.violation("utf8_to_latin1_differs_from_iso8859_1", &Case::new("helper_u2l").with("cp", u), format!("U+{:04X}: got {:?}, ISO 8859-1 says {:?}", u, g, want));
                } else {
                    ctx.count("helper.utf8_to_latin1_scalars");
                    ctx.nontrivial(hash64(format!("u2l{}", u).as_bytes()));
                }
            }
        }
    }
    for b in 0..=255u8 {
        ctx.eval();
        let got = guard(|| latin1_to_utf8(&[b]));
        let want = if latin1_printable_char(b as char) { Some((b as char).to_string()) } else { None };
        let control = b < 0x20 || (0x7F..=0x9F).contains(&b);
        match got {
            Err(p) => ctx.violation("helper_panic", &Case::new("helper_l2u").with("byte", b), p),
            Ok(g) => {
                if control && g == Some((b as char).to_string()) {
                    ctx.count("helper.control_mapped_to_itself(not judged)");
                    ctx.count("helper.latin1_to_utf8_bytes");
                } else if g != want {
                    ctx.violation("latin1_to_utf8_differs_from_iso8859_1", &Case::new("helper_l2u").with("byte", b), format!("byte {:#x}: got {:?}, ISO 8859-1 says {:?}", b, g, want));
                } else {
                    ctx.count("helper.latin1_to_utf8_bytes");
                    ctx.nontrivial(hash64(format!("l2u{}", b).as_bytes()));
                }
            }
        }
    }
    ctx.exhaustive.insert("latin1_helpers_U+0000..U+02FF_and_all_256_bytes".into(), true);
}

pub fn eval_helper_inverse(ctx: &mut Ctx, bytes: &[u8]) {
    ctx.eval();
    let case = || Case::new("helper_inv").bytes("latin1", bytes);
    match guard(|| latin1_to_utf8(bytes).map(|s| (utf8_to_latin1(&s), s))) {
        Err(p) => ctx.violation("helper_panic", &case(), p),
        Ok(None) => {
            if bytes.iter().all(|b| latin1_printable_char(*b as char)) {
                ctx.violation("latin1_to_utf8_refuses_printable", &case(), "");
            }
        }
        Ok(Some((back, s))) => {
            if back.as_deref() != Some(bytes) || s.chars().map(|c| c as u32).ne(bytes.iter().map(|b| *b as u32)) {
                ctx.violation("helpers_not_inverse", &case(), "utf8_to_latin1(latin1_to_utf8(x)) != x");
            } else {
                ctx.count("helper.inverse_ok");
            }
        }
    }
}

fn rand_char(rng: &mut Rng, class: usize) -> char {
    loop {
        let u = match class {
            0 => rng.range(0x20, 0x7E) as u32,
            1 => rng.below(0x20) as u32,
            2 => rng.range(0xA0, 0xFF) as u32,
            3 => rng.range(0x7F, 0x9F) as u32,
            4 => rng.range(0x100, 0xFFFF) as u32,
            5 => rng.range(0x10000, 0x10FFFF) as u32,
            6 => *rng.pick(&[0xFFFEu32, 0xFFFF, 0xFDD0, 0x1FFFE, 0x10FFFF, 0xFEFF, 0x2028]),
            _ => rng.range(0x30, 0x39) as u32,
        };
        if let Some(c) = char::from_u32(u) {
            return c;
        }
    }
}

/// tokens that charset-sniffing or "helpful" clean-up code is known to treat specially
pub const NOTABLE: [&str; 26] = [
    "\u{FEFF}", "\u{00EF}\u{00BB}\u{00BF}", "\u{00FE}\u{00FF}", "\u{00FF}\u{00FE}", "\u{FFFE}", "\u{FFFD}", "\u{0}", "\u{7f}", "\u{80}", "\u{9f}", "\u{a0}", "\u{ad}",
    "\u{ff}", "\u{100}", "\u{d7ff}", "\u{e000}", "\u{10000}", "\u{10ffff}", "+/v8", "\u{2028}", "\u{1e}\u{4}", "[)>\u{1e}05\u{1d}", "\u{c3}\u{a9}", "\r\n", "\u{b5}", "\u{3bc}",
];

pub fn gen_string(rng: &mut Rng) -> String {
    let n = if rng.chance(1, 10) { rng.below(300) } else { rng.below(30) };
    let k = rng.range(1, 3);
    let classes: Vec<usize> = (0..k).map(|_| rng.below(8)).collect();
    let mut s: String = (0..n).map(|_| { let cl = *rng.pick(&classes); rand_char(rng, cl) }).collect();
    if rng.chance(1, 5) {
        let t = *rng.pick(&NOTABLE);
        match rng.below(4) {
            0 | 1 => s.insert_str(0, t),
            2 => s.push_str(t),
            _ => {
                let mid = s.char_indices().map(|x| x.0).nth(s.chars().count() / 2).unwrap_or(0);
                s.insert_str(mid, t);
            }
        }
    }
    s
}

pub fn gen_macro_string(rng: &mut Rng) -> String {
    let head = if rng.chance(1, 2) { "[)>\u{1e}05\u{1d}" } else { "[)>\u{1e}06\u{1d}" };
    let n = rng.below(41);
    let k = rng.range(1, 3);
    let classes: Vec<usize> = (0..k).map(|_| *rng.pick(&[0usize, 0, 7, 2, 4, 5, 1])).collect();
    let body: String = (0..n).map(|_| { let cl = *rng.pick(&classes); rand_char(rng, cl) }).collect();
    match rng.below(8) {
        0 => format!("{}{}", head, body),
        1 => format!("{}\u{1e}\u{4}", body),
        _ => format!("{}{}\u{1e}\u{4}", head, body),
    }
}

pub fn run(ctx: &mut Ctx) {
    if ctx.shard == 0 {
        eval_helpers(ctx);
    }
    // all one-character strings of the BMP (thorough: every scalar value up to U+FFFF; quick: U+0000..U+2FFF step)
    let hi = if ctx.is_thorough() { 0x10FFFFu32 } else { 0xFFFF };
    let step = if ctx.is_thorough() { 1 } else { 7 };
    let mut u = ctx.shard as u32 * step;
    while u <= hi {
        if let Some(c) = char::from_u32(u) {
            eval(ctx, &c.to_string(), true, "one_char_strings");
        }
        u += step * ctx.nshards as u32;
    }
    if ctx.is_thorough() {
        ctx.exhaustive.insert("all_one_scalar_strings".into(), true);
    }
    // notable tokens: alone, in pairs, and around plain text, with and without the macro envelope
    let mut item = 0usize;
    for a in NOTABLE.iter() {
        for b in NOTABLE.iter().chain(["", "abc", "A"].iter()) {
            if ctx.mine(item) {
                for s in [format!("{}{}", a, b), format!("{}{}", b, a), format!("x{}{}", a, b), format!("[)>\u{1e}05\u{1d}{}{}\u{1e}\u{4}", a, b), format!("[)>\u{1e}06\u{1d}{}{}\u{1e}\u{4}", b, a)] {
                    eval(ctx, &s, true, "notable_tokens");
                }
            }
            item += 1;
        }
    }
    // end-of-data family on strings: a prefix of one character class of every length (so that every fill level of
    // the symbol and every phase of a triple/quadruple occurs) followed by a short tail of characters whose ASCII
    // encodation needs two codewords (Latin-1 >= U+0080) or which force an ECI (beyond Latin-1)
    {
        let prefixes: [&[u8]; 6] = [b"A", b"a", b"7", b"A1", b"*>\r ", b".A-"];
        let tails: [&str; 9] = ["\u{e9}", "\u{e9}\u{e9}", "\u{ff}", "\u{80}", "\u{e9}1", "1\u{e9}", "\u{e9}A", "\u{20ac}", "A\u{20ac}"];
        let maxlen = if ctx.is_thorough() { 420 } else { 215 };
        for (pi, pre) in prefixes.iter().enumerate() {
            for len in 0..=maxlen {
                if !ctx.mine(item) {
                    item += 1;
                    continue;
                }
                item += 1;
                let head: String = (0..len).map(|i| pre[(i + pi) % pre.len()] as char).collect();
                for t in tails {
                    eval(ctx, &format!("{}{}", head, t), true, "string_tail_family");
                }
            }
        }
        // strings that are one Base256 field filling a symbol exactly, one less, one more
        for cap in [3usize, 5, 8, 12, 18, 22, 30, 36, 44, 62, 86, 114, 144, 174, 204, 280, 368, 456, 576, 696, 816, 1050, 1304, 1558] {
            for delta in -3i64..=2 {
                if !ctx.mine(item) {
                    item += 1;
                    continue;
                }
                item += 1;
                // Latin-1: latch + length (1 or 2) + n bytes; UTF-8: 241 27 first
                let lat = cap as i64 - 2 + delta;
                if lat > 0 && lat < 1556 {
                    eval(ctx, &"\u{e9}".repeat(lat as usize), true, "string_capacity_family");
                    eval(ctx, &"\u{e9}".repeat(lat as usize - (lat > 250) as usize), true, "string_capacity_family");
                }
                let utf = (cap as i64 - 4 + delta) / 3;
                if utf > 0 && utf < 518 {
                    eval(ctx, &"\u{20ac}".repeat(utf as usize), true, "string_capacity_family");
                    eval(ctx, &format!("{}\u{3b1}", "\u{20ac}".repeat(utf as usize)), true, "string_capacity_family");
                    eval(ctx, &format!("\u{3b1}\u{3b1}{}", "\u{20ac}".repeat(utf as usize)), true, "string_capacity_family");
                }
            }
        }
    }
    let n = ctx.budget(200_000, 20_000_000);
    for i in 0..n {
        let s = if i % 3 == 0 { gen_macro_string(&mut ctx.rng) } else { gen_string(&mut ctx.rng) };
        let mac = !ctx.rng.chance(1, 6);
        if i % 3 == 1 {
            let mut cfg = super::enc_common::gen_case(&mut ctx.rng, 1);
            cfg.input.clear();
            cfg.macros = mac;
            eval_cfg(ctx, &s, &cfg, "generated_builder_configs");
        } else {
            eval(ctx, &s, mac, if i % 3 == 0 { "macro_strings" } else { "generated" });
        }
        if i % 4 == 0 {
            let len = ctx.rng.below(40);
            let b: Vec<u8> = (0..len).map(|_| if ctx.rng.chance(1, 12) { ctx.rng.byte() } else { *ctx.rng.pick(&[0x20u8, 0x41, 0x7E, 0xA0, 0xAD, 0xFF, 0xD7, 0xF7, 0x30]) }).collect();
            eval_helper_inverse(ctx, &b);
        }
    }
}

pub fn replay(ctx: &mut Ctx, case: &Case) {
    match case.kind.as_str() {
        "str" => {
            let b = case.get_bytes("utf8");
            match String::from_utf8(b) {
                Ok(s) => {
                    let mut cfg = EncCase::from_case(case);
                    if case.get("list").is_none() {
                        cfg.list = "default".into();
                        cfg.mask = 63;
                    }
                    eval_cfg(ctx, &s, &cfg, "replay")
                }
                Err(_) => ctx.harness_error("replay string not utf8"),
            }
        }
        "helper_u2l" | "helper_l2u" => eval_helpers(ctx),
        "helper_inv" => eval_helper_inverse(ctx, &case.get_bytes("latin1")),
        _ => ctx.harness_error("unknown case kind"),
    }
}
