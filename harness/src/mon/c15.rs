//! C15 — ECI designators and character-set tables are exact.
use crate::ctx::{guard, Case, Ctx};
use crate::json::J;
use crate::refimpl::charset;
use crate::refimpl::dec::randomize_255;
use crate::refimpl::enc::eci_designator;
use crate::rng::hash64;
use datamatrix::data::{decode_data, decode_str, DataDecodingError};
use datamatrix::{DataMatrixBuilder, SymbolList};

/// write side + read-back of one ECI number
pub fn eval_number(ctx: &mut Ctx, n: u32) {
    ctx.eval();
    let case = || Case::new("eci_number").with("n", n);
    let res = guard(|| DataMatrixBuilder::new().with_symbol_list(SymbolList::default()).encode_eci(b"", Some(n)).map(|dm| dm.data_codewords().to_vec()));
    let cw = match res {
        Err(p) => return ctx.violation("encode_panic", &case(), p),
        Ok(Err(e)) => return ctx.violation("encode_refused", &case(), format!("{:?}", e)),
        Ok(Ok(cw)) => cw,
    };
    let des = eci_designator(n);
    let mut want = vec![241u8];
    want.extend_from_slice(&des);
    if cw.len() < want.len() || cw[..want.len()] != want[..] {
        return ctx.violation("designator_differs_from_standard", &case(), format!("stream starts {:?}, ISO/IEC 16022 5.4 gives {:?}", &cw[..cw.len().min(5)], want));
    }
    match guard(|| datamatrix::verif::decode_eci_spans(&cw)) {
        Err(p) => return ctx.violation("decode_panic", &case(), p),
        Ok(Err(e)) => return ctx.violation("designator_not_read_back", &case(), format!("{:?}", e)),
        Ok(Ok((bytes, spans))) => {
            if spans != vec![(0usize, n)] || !bytes.is_empty() {
                return ctx.violation("read_back_number_differs", &case(), format!("read back {:?}", spans));
            }
        }
    }
    // the raw byte decoder refuses a stream with an ECI by ECICode on the pinned tree; the statement does not
    // require that (only malformed designators must be errors), so the outcome is recorded, not judged
    match guard(|| decode_data(&cw)) {
        Err(p) => return ctx.violation("decode_panic", &case(), p),
        Ok(Err(DataDecodingError::ECICode)) => ctx.count("decode_data.wellformed_eci_refused_by_ECICode"),
        Ok(Err(_)) => ctx.count("decode_data.wellformed_eci_other_error(not judged)"),
        Ok(Ok(_)) => ctx.count("decode_data.wellformed_eci_accepted(not judged)"),
    }
    ctx.count(&format!("numbers.form{}", des.len()));
    ctx.nontrivial(hash64(format!("n{}", n).as_bytes()));
    ctx.sample(|| J::obj().set("eci", J::i(n)).set("designator", J::s(format!("{:?}", des))));
}

/// a designator byte sequence [241, d...] followed by nothing
pub fn eval_designator(ctx: &mut Ctx, d: &[u8]) {
    ctx.eval();
    let case = || Case::new("eci_designator").bytes("d", d);
    let mut cw = vec![241u8];
    cw.extend_from_slice(d);
    // classification by the standard: first byte 1..127 one-codeword form, 128..191 two, 192..207 three;
    // 2nd/3rd codeword must be 1..254; anything else (0, 208..255 first byte, truncation) is malformed
    let wf: Option<(u32, usize)> = match d.first().copied() {
        None => None,
        Some(c1 @ 1..=127) => Some((c1 as u32 - 1, 1)),
        Some(c1 @ 128..=191) => match d.get(1).copied() {
            Some(c2 @ 1..=254) => Some(((c1 as u32 - 128) * 254 + 127 + c2 as u32 - 1, 2)),
            _ => None,
        },
        Some(c1 @ 192..=207) => match (d.get(1).copied(), d.get(2).copied()) {
            (Some(c2 @ 1..=254), Some(c3 @ 1..=254)) => Some(((c1 as u32 - 192) * 64516 + 16383 + (c2 as u32 - 1) * 254 + c3 as u32 - 1, 3)),
            _ => None,
        },
        _ => None,
    };
    let res = guard(|| datamatrix::verif::decode_eci_spans(&cw));
    match (wf, res) {
        (_, Err(p)) => ctx.violation("decode_panic", &case(), p),
        (None, Ok(Ok((_, spans)))) => ctx.violation("malformed_designator_accepted", &case(), format!("read as {:?}", spans)),
        (None, Ok(Err(_))) => {
            ctx.count("designator.malformed_rejected");
            ctx.nontrivial(hash64(&cw));
        }
        (Some((n, used)), Ok(r)) => {
            if n > 999_999 {
                // the property speaks of 0..=999999 only; larger values are neither well- nor malformed
                ctx.count("designator.unspecified_gt_999999");
                return;
            }
            // trailing bytes after the designator are ordinary ASCII-mode codewords and may or may not be valid;
            // only judge sequences that consist of the designator alone
            if used != d.len() {
                ctx.count("designator.with_trailing_bytes_not_judged");
                return;
            }
            match r {
                Ok((_, spans)) if spans == vec![(0usize, n)] => {
                    ctx.count("designator.wellformed_read");
                    ctx.nontrivial(hash64(&cw));
                }
                other => ctx.violation("wellformed_designator_misread", &case(), format!("expected ECI {}, got {:?}", n, other)),
            }
        }
    }
}

/// one payload byte under one character set through one carrier
pub fn eval_byte(ctx: &mut Ctx, eci: u32, payload: &[u8], carrier: &str) {
    ctx.eval();
    let case = || Case::new("eci_bytes").with("eci", eci).bytes("payload", payload).with("carrier", carrier);
    let mut cw = vec![241u8];
    cw.extend(eci_designator(eci));
    match carrier {
        "ascii" => {
            for b in payload {
                if *b < 128 {
                    cw.push(*b + 1);
                } else {
                    cw.push(235);
                    cw.push(*b - 127);
                }
            }
        }
        _ => {
            cw.push(231);
            let start = cw.len();
            cw.push(payload.len() as u8);
            cw.extend_from_slice(payload);
            for i in start..cw.len() {
                cw[i] = randomize_255(cw[i], i + 1);
            }
        }
    }
    let want = charset::decode(eci, payload);
    match guard(|| decode_str(&cw)) {
        Err(p) => ctx.violation("decode_str_panic", &case(), p),
        Ok(Ok(s)) => match &want {
            Some(w) if *w == s => {
                ctx.count(&format!("bytes.eci{}.char_ok", eci));
                ctx.nontrivial(hash64(case().flat().as_bytes()));
            }
            Some(w) => ctx.violation("wrong_character", &case(), format!("decoded {:?}, the character set's table says {:?}", s, w)),
            None => ctx.violation("undefined_byte_decoded", &case(), format!("decoded {:?} for a control/undefined/invalid byte sequence", s)),
        },
        Ok(Err(DataDecodingError::CharsetError)) => match &want {
            None => {
                ctx.count(&format!("bytes.eci{}.charset_error_ok", eci));
                ctx.nontrivial(hash64(case().flat().as_bytes()));
            }
            Some(w) => ctx.violation("defined_byte_rejected", &case(), format!("CharsetError, expected {:?}", w)),
        },
        Ok(Err(e)) => ctx.violation("unexpected_error", &case(), format!("{:?}", e)),
    }
}

/// default interpretation (no ECI) and ECI 3, optionally behind a Macro codeword: Latin-1 per ISO 8859-1
pub fn eval_default(ctx: &mut Ctx, macro_cw: u8, eci3: bool, payload: &[u8], carrier: &str) {
    ctx.eval();
    let case = || Case::new("eci_default").with("macro", macro_cw).with("eci3", eci3 as u8).bytes("payload", payload).with("carrier", carrier);
    let mut cw: Vec<u8> = Vec::new();
    if macro_cw != 0 {
        cw.push(macro_cw);
    }
    if eci3 {
        cw.extend_from_slice(&[241, 4]);
    }
    match carrier {
        "ascii" => {
            for b in payload {
                if *b < 128 {
                    cw.push(*b + 1);
                } else {
                    cw.push(235);
                    cw.push(*b - 127);
                }
            }
        }
        _ => {
            cw.push(231);
            let start = cw.len();
            cw.push(payload.len() as u8);
            cw.extend_from_slice(payload);
            for i in start..cw.len() {
                cw[i] = randomize_255(cw[i], i + 1);
            }
        }
    }
    let body = charset::decode(3, payload);
    let want: Option<String> = body.map(|b| match macro_cw {
        236 => format!("[)>\u{1e}05\u{1d}{}\u{1e}\u{4}", b),
        237 => format!("[)>\u{1e}06\u{1d}{}\u{1e}\u{4}", b),
        _ => b,
    });
    match guard(|| decode_str(&cw)) {
        Err(p) => ctx.violation("decode_str_panic", &case(), p),
        Ok(Ok(s)) => match &want {
            Some(w) if *w == s => {
                ctx.count("default.char_ok");
                ctx.nontrivial(hash64(case().flat().as_bytes()));
            }
            Some(w) => ctx.violation("wrong_character", &case(), format!("decoded {:?}, ISO 8859-1 says {:?}", s, w)),
            None => ctx.violation("undefined_byte_decoded", &case(), format!("decoded {:?} for a control byte under the default interpretation", s)),
        },
        Ok(Err(DataDecodingError::CharsetError)) => match &want {
            None => ctx.count("default.charset_error_ok"),
            Some(w) => ctx.violation("defined_byte_rejected", &case(), format!("CharsetError, expected {:?}", w)),
        },
        Ok(Err(e)) => ctx.violation("unexpected_error", &case(), format!("{:?}", e)),
    }
}

/// several ECI sections in one symbol: every section is interpreted on its own (a designator starts a new
/// interpretation even if it repeats the current number); the result is the concatenation, or a charset error
/// if any single section is not a valid sequence of its character set
pub fn eval_sections(ctx: &mut Ctx, secs: &[(u32, Vec<u8>)], lead: &[u8]) {
    ctx.eval();
    let case = || {
        let mut c = Case::new("eci_sections").bytes("lead", lead).with("n", secs.len());
        for (i, (e, p)) in secs.iter().enumerate() {
            c = c.with(&format!("e{}", i), e).bytes(&format!("p{}", i), p);
        }
        c
    };
    let mut cw: Vec<u8> = Vec::new();
    let push_bytes = |cw: &mut Vec<u8>, bytes: &[u8]| {
        for b in bytes {
            if *b < 128 {
                cw.push(*b + 1);
            } else {
                cw.push(235);
                cw.push(*b - 127);
            }
        }
    };
    push_bytes(&mut cw, lead);
    for (e, p) in secs {
        cw.push(241);
        cw.extend(eci_designator(*e));
        push_bytes(&mut cw, p);
    }
    let mut want: Option<String> = charset::decode(3, lead);
    for (e, p) in secs {
        want = match (want, charset::decode(*e, p)) {
            (Some(mut a), Some(b)) => {
                a.push_str(&b);
                Some(a)
            }
            _ => None,
        };
    }
    match guard(|| decode_str(&cw)) {
        Err(p) => ctx.violation("decode_str_panic", &case(), p),
        Ok(Ok(s)) => match &want {
            Some(w) if *w == s => {
                ctx.count("sections.ok");
                ctx.nontrivial(hash64(case().flat().as_bytes()));
            }
            Some(w) => ctx.violation("wrong_character", &case(), format!("decoded {:?}, expected {:?}", s, w)),
            None => ctx.violation("invalid_section_accepted", &case(), format!("decoded {:?} although one section alone is not a valid sequence of its character set", s)),
        },
        Ok(Err(DataDecodingError::CharsetError)) => match &want {
            None => ctx.count("sections.charset_error_ok"),
            Some(w) => ctx.violation("defined_byte_rejected", &case(), format!("CharsetError, expected {:?}", w)),
        },
        Ok(Err(e)) => ctx.violation("unexpected_error", &case(), format!("{:?}", e)),
    }
}

pub fn run(ctx: &mut Ctx) {
    // all 1,000,000 ECI numbers
    let mut n = ctx.shard as u32;
    while n <= 999_999 {
        eval_number(ctx, n);
        n += ctx.nshards as u32;
    }
    ctx.exhaustive.insert("all_1000000_eci_numbers".into(), true);
    // designator sequences: all 1- and 2-byte, 3-byte: complete in thorough, boundary set in quick
    if ctx.shard == 0 {
        eval_designator(ctx, &[]);
    }
    for a in 0..=255u8 {
        if !ctx.mine(a as usize) {
            continue;
        }
        eval_designator(ctx, &[a]);
        for b in 0..=255u8 {
            eval_designator(ctx, &[a, b]);
            if ctx.is_thorough() || (a >= 190 && a <= 208) {
                let cs: Vec<u8> = if ctx.is_thorough() || a >= 192 && a <= 207 && (b <= 1 || b >= 254) { (0..=255).collect() } else { vec![0, 1, 2, 128, 253, 254, 255] };
                for c in cs {
                    eval_designator(ctx, &[a, b, c]);
                }
            }
        }
    }
    ctx.exhaustive.insert("all_1_and_2_byte_designator_sequences".into(), true);
    if ctx.is_thorough() {
        ctx.exhaustive.insert("all_3_byte_designator_sequences".into(), true);
    }
    // 256 bytes x 5 sets x 2 carriers, alone and embedded between two ASCII letters
    let mut item = 0;
    for eci in [3u32, 11, 13, 26, 27] {
        for b in 0..=255u8 {
            for carrier in ["ascii", "base256"] {
                if ctx.mine(item) {
                    eval_byte(ctx, eci, &[b], carrier);
                    eval_byte(ctx, eci, &[b'A', b, b'z'], carrier);
                }
                item += 1;
            }
        }
    }
    ctx.exhaustive.insert("256_bytes_x_5_character_sets_x_2_carriers".into(), true);
    // default interpretation / ECI 3, with and without a Macro codeword in front
    for b in 0..=255u8 {
        if !ctx.mine(b as usize) {
            continue;
        }
        for macro_cw in [0u8, 236, 237] {
            for eci3 in [false, true] {
                for carrier in ["ascii", "base256"] {
                    eval_default(ctx, macro_cw, eci3, &[b], carrier);
                    eval_default(ctx, macro_cw, eci3, &[0xC3, b, b'z'], carrier);
                }
            }
        }
    }
    // ECI 26: every BMP scalar value (and a sample of astral ones) as a complete payload and as a prefix
    let mut u = ctx.shard as u32;
    while u <= 0x2FFFF {
        if let Some(ch) = char::from_u32(u) {
            let mut buf = [0u8; 4];
            let enc = ch.encode_utf8(&mut buf).as_bytes().to_vec();
            if u <= 0xFFFF || u % 13 == 0 {
                let p1 = enc.clone();
                let mut p2 = enc.clone();
                p2.push(b'a');
                // Base256 fields carry at most 249 bytes with a one-byte length: fine here
                eval_byte(ctx, 26, &p1, "base256");
                eval_byte(ctx, 26, &p2, "base256");
            }
        }
        u += ctx.nshards as u32;
    }
    ctx.exhaustive.insert("eci26_every_bmp_scalar_as_payload_and_prefix".into(), true);
    // multi-section symbols: every split point of multi-byte UTF-8 strings between two sections with the same /
    // different ECI, sections of all five sets in all orders of two and three
    if ctx.shard == 0 {
        let samples: [&str; 6] = ["\u{20ac}", "a\u{e9}b", "\u{1f978}x", "\u{7ff}\u{800}", "zz", "\u{feff}q"];
        for s in samples {
            let b = s.as_bytes();
            for cut in 0..=b.len() {
                for (e1, e2) in [(26u32, 26u32), (26, 27), (27, 26), (26, 3), (3, 26)] {
                    eval_sections(ctx, &[(e1, b[..cut].to_vec()), (e2, b[cut..].to_vec())], b"");
                    eval_sections(ctx, &[(e1, b[..cut].to_vec()), (e2, b[cut..].to_vec())], b"L\xe4");
                }
                eval_sections(ctx, &[(26, b[..cut].to_vec()), (26, vec![]), (26, b[cut..].to_vec())], b"");
            }
        }
        let sets = [3u32, 11, 13, 26, 27];
        let payload = |e: u32| -> Vec<u8> { match e { 26 => "\u{e9}\u{20ac}".as_bytes().to_vec(), 27 => b"ok".to_vec(), 13 => vec![0xA1, 0x41, 0xFB], 11 => vec![0xD0, 0xFD, 0x7E], _ => vec![0xA0, 0xFF, 0x20] } };
        for a in sets {
            for b in sets {
                eval_sections(ctx, &[(a, payload(a)), (b, payload(b))], b"");
                for c in sets {
                    eval_sections(ctx, &[(a, payload(a)), (b, payload(b)), (c, payload(c))], b"x");
                }
                // an undefined byte in one section only
                eval_sections(ctx, &[(a, payload(a)), (b, vec![0x80])], b"");
                eval_sections(ctx, &[(a, vec![0x9F]), (b, payload(b))], b"");
            }
        }
    }
    for _ in 0..ctx.budget(20_000, 2_000_000) {
        let n = ctx.rng.range(1, 4);
        let secs: Vec<(u32, Vec<u8>)> = (0..n)
            .map(|_| {
                let e = *ctx.rng.pick(&[3u32, 11, 13, 26, 26, 27]);
                let len = ctx.rng.below(5);
                let p: Vec<u8> = (0..len).map(|_| *ctx.rng.pick(&[0x41u8, 0x7E, 0x80, 0xA0, 0xC3, 0xA9, 0xE2, 0x82, 0xAC, 0xF0, 0x9F, 0xDB, 0xFF, 0x20])).collect();
                (e, p)
            })
            .collect();
        let lead: &[u8] = if ctx.rng.chance(1, 2) { b"" } else { b"A" };
        eval_sections(ctx, &secs, lead);
    }
    // UTF-8 validity: all 2-byte sequences; sampled 3-4 byte incl. overlongs and surrogates
    for a in 0..=255u8 {
        if !ctx.mine(a as usize) {
            continue;
        }
        for b in 0..=255u8 {
            eval_byte(ctx, 26, &[a, b], "base256");
            if a >= 0x80 && b % 16 == 0 {
                eval_byte(ctx, 27, &[a, b], "base256");
            }
        }
    }
    let n = ctx.budget(60_000, 6_000_000);
    for _ in 0..n {
        let len = ctx.rng.range(3, 4);
        let mut s: Vec<u8> = vec![*ctx.rng.pick(&[0xE0u8, 0xE1, 0xEC, 0xED, 0xEE, 0xEF, 0xF0, 0xF1, 0xF3, 0xF4, 0xF5, 0xC0, 0xC1, 0xC2, 0xDF])];
        for _ in 1..len {
            s.push(*ctx.rng.pick(&[0x7Fu8, 0x80, 0x8F, 0x90, 0x9F, 0xA0, 0xBF, 0xC0]));
        }
        eval_byte(ctx, 26, &s, "base256");
        // multi-byte payloads under the 8-bit sets
        let eci = *ctx.rng.pick(&[3u32, 11, 13]);
        let plen = ctx.rng.range(1, 12);
        let p: Vec<u8> = (0..plen).map(|_| if ctx.rng.chance(1, 8) { ctx.rng.byte() } else { 0xA0 + ctx.rng.below(96) as u8 }).collect();
        let carrier = if ctx.rng.chance(1, 2) { "ascii" } else { "base256" };
        eval_byte(ctx, eci, &p, carrier);
    }
}

pub fn replay(ctx: &mut Ctx, case: &Case) {
    match case.kind.as_str() {
        "eci_number" => eval_number(ctx, case.get_u64("n") as u32),
        "eci_designator" => eval_designator(ctx, &case.get_bytes("d")),
        "eci_sections" => {
            let secs: Vec<(u32, Vec<u8>)> = (0..case.get_usize("n")).map(|i| (case.get_u64(&format!("e{}", i)) as u32, case.get_bytes(&format!("p{}", i)))).collect();
            eval_sections(ctx, &secs, &case.get_bytes("lead"));
        }
        "eci_default" => eval_default(ctx, case.get_usize("macro") as u8, case.get_bool("eci3"), &case.get_bytes("payload"), case.get("carrier").unwrap_or("ascii")),
        "eci_bytes" => eval_byte(ctx, case.get_u64("eci") as u32, &case.get_bytes("payload"), case.get("carrier").unwrap_or("ascii")),
        _ => ctx.harness_error("unknown case kind"),
    }
}
