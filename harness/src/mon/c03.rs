//! C03 — guaranteed Reed-Solomon correction capacity in every symbol size (fault enumeration).
use crate::ctx::{guard, Case, Ctx};
use crate::gen::rswords::{apply, pattern, pattern_with_syndromes, structured_syndromes, valid_codeword};
use crate::json::J;
use crate::refimpl::cat::{self, Row, CAT};
use crate::refimpl::gf::Rs;
use crate::refimpl::place::{symbol_pos, Placement};
use crate::rng::hash64;
use datamatrix::errorcode::decode_error;

fn errs_str(e: &[(usize, u8)]) -> String {
    e.iter().map(|(p, v)| format!("{}:{}", p, v)).collect::<Vec<_>>().join(",")
}

fn parse_errs(s: &str) -> Vec<(usize, u8)> {
    s.split(',').filter(|x| !x.is_empty()).filter_map(|x| x.split_once(':')).filter_map(|(a, b)| Some((a.parse().ok()?, b.parse().ok()?))).collect()
}

fn case_for(r: &Row, cw: &[u8], e: &[(usize, u8)]) -> Case {
    Case::new("rs_correct").with("size", r.name).bytes("cw", cw).with("errs", errs_str(e))
}

fn region_tag(r: &Row, e: &[(usize, u8)]) -> &'static str {
    let d = e.iter().any(|(p, _)| *p < r.data);
    let c = e.iter().any(|(p, _)| *p >= r.data);
    match (d, c) {
        (true, true) => "both",
        (true, false) => "data",
        (false, true) => "ecc",
        _ => "none",
    }
}

/// weight per block must be within the guarantee, else the generator is wrong (harness error)
fn within_radius(r: &Row, e: &[(usize, u8)]) -> bool {
    let t = r.k() / 2;
    let mut w = vec![0usize; r.blocks];
    let mut seen = std::collections::HashSet::new();
    for (p, v) in e {
        if *v == 0 || !seen.insert(*p) || *p >= r.total() {
            return false;
        }
        let b = if *p < r.data { *p % r.blocks } else { (*p - r.data) % r.blocks };
        w[b] += 1;
    }
    w.iter().all(|x| *x <= t)
}

pub fn eval(ctx: &mut Ctx, r: &Row, cw: &[u8], e: &[(usize, u8)], tag: &str) {
    if !within_radius(r, e) {
        ctx.harness_error(format!("C03 generator produced a pattern outside the radius: {} {}", r.name, errs_str(e)));
        return;
    }
    ctx.eval();
    let mut w = apply(cw, e);
    let size = r.size;
    let res = guard(|| {
        let res = decode_error(&mut w, size);
        (res, w)
    });
    match res {
        Err(p) => ctx.violation("panic", &case_for(r, cw, e), p),
        Ok((Err(err), _)) => ctx.violation("reported_error", &case_for(r, cw, e), format!("{:?} for a pattern within the guaranteed capacity", err)),
        Ok((Ok(()), w)) => {
            if w != cw {
                let diff: Vec<usize> = (0..w.len()).filter(|i| w[*i] != cw[*i]).take(6).collect();
                ctx.violation("not_restored", &case_for(r, cw, e), format!("Ok but word differs from the original at positions {:?}", diff));
            } else if !e.is_empty() {
                let mut key = r.name.as_bytes().to_vec();
                key.extend_from_slice(errs_str(e).as_bytes());
                key.extend_from_slice(&cw[..cw.len().min(16)]);
                ctx.nontrivial(hash64(&key));
                ctx.count(&format!("E.{}", tag));
                ctx.count(&format!("region.{}", region_tag(r, e)));
                ctx.count(&format!("blocks.{}", r.blocks));
                let maxw = e.len();
                ctx.max("max_total_weight", maxw as u64);
                if r.blocks > 1 && e.iter().any(|(p, _)| *p >= r.data && (*p - r.data) % r.blocks >= 1) {
                    ctx.count("ecc_error_in_block_ge1");
                }
                ctx.sample(|| J::obj().set("size", J::s(r.name)).set("errors(pos:xor)", J::s(errs_str(e))).set("enumeration", J::s(tag)).set("t_per_block", J::i(r.k() / 2)).set("blocks", J::i(r.blocks)));
            }
        }
    }
}

/// pixel level: flip modules of the crate-rendered symbol so that exactly the codewords of `e` are hit
pub fn eval_px(ctx: &mut Ctx, r: &Row, msg: &[u8], e: &[(usize, u8)]) {
    let size = r.size;
    let dm = match guard(|| datamatrix::DataMatrix::encode(msg, size)) {
        Ok(Ok(dm)) => dm,
        _ => {
            ctx.count("px.encode_failed");
            return;
        }
    };
    if dm.codewords().len() != r.total() || !within_radius(r, e) {
        ctx.count("px.skipped");
        return;
    }
    let bm = dm.bitmap();
    let (w, mut bits) = (bm.width(), bm.bits().to_vec());
    // undamaged symbol must decode to msg, otherwise this is C01's business
    match guard(|| datamatrix::DataMatrix::decode(&bits, w)) {
        Ok(Ok(x)) if x == msg => {}
        _ => {
            ctx.count("px.undamaged_roundtrip_failed");
            return;
        }
    }
    ctx.eval();
    let pl = Placement::for_row(r);
    for (p, v) in e {
        let mods = pl.modules_of(*p);
        for bit in 0..8 {
            if (v >> (7 - bit)) & 1 == 1 {
                let sp = symbol_pos(r, mods[bit]);
                bits[sp] = !bits[sp];
            }
        }
    }
    let case = Case::new("px_correct").with("size", r.name).bytes("msg", msg).with("errs", errs_str(e));
    match guard(|| datamatrix::DataMatrix::decode(&bits, w)) {
        Err(p) => ctx.violation("px_panic", &case, p),
        Ok(Err(err)) => ctx.violation("px_reported_error", &case, format!("{:?}", err)),
        Ok(Ok(x)) => {
            if x != msg {
                ctx.violation("px_wrong_message", &case, "decoded a different message");
            } else {
                ctx.count("E.E4_pixel");
                let mut key = b"px".to_vec();
                key.extend_from_slice(r.name.as_bytes());
                key.extend_from_slice(errs_str(e).as_bytes());
                key.extend_from_slice(msg);
                ctx.nontrivial(hash64(&key));
            }
        }
    }
}

pub fn run(ctx: &mut Ctx) {
    let thorough = ctx.is_thorough();
    let mut item = 0usize;
    for r in CAT.iter() {
        let rs = Rs::new(r.k());
        let t = r.k() / 2;
        // E1: every single position x 4 values
        for p in 0..r.total() {
            if ctx.mine(item) {
                let cw = valid_codeword(&mut ctx.rng, r, &rs, p);
                let rv = 1 + ctx.rng.below(255) as u8;
                for v in [1u8, 0x80, 0xFF, rv] {
                    eval(ctx, r, &cw, &[(p, v)], "E1_single");
                }
            }
            item += 1;
        }
        // E2: pairs within a block
        if t >= 2 {
            if r.name == "Square10" {
                for p in 0..8usize {
                    for q in p + 1..8 {
                        if thorough {
                            for a in 1..=255u16 {
                                if ctx.mine(item) {
                                    let cw = valid_codeword(&mut ctx.rng, r, &rs, 3);
                                    for b in 1..=255u16 {
                                        eval(ctx, r, &cw, &[(p, a as u8), (q, b as u8)], "E2_pairs_10x10_all_values");
                                    }
                                }
                                item += 1;
                            }
                        } else {
                            if ctx.mine(item) {
                                let cw = valid_codeword(&mut ctx.rng, r, &rs, 3);
                                for _ in 0..150 {
                                    let (a, b) = (1 + ctx.rng.below(255) as u8, 1 + ctx.rng.below(255) as u8);
                                    eval(ctx, r, &cw, &[(p, a), (q, b)], "E2_pairs_10x10_sampled_values");
                                }
                            }
                            item += 1;
                        }
                    }
                }
            } else if r.total() / r.blocks <= 40 || thorough {
                for b in 0..r.blocks {
                    let pos = r.block_positions(b);
                    let limit = if pos.len() <= 40 { usize::MAX } else { 3000 };
                    let mut n = 0;
                    'outer: for i in 0..pos.len() {
                        for j in i + 1..pos.len() {
                            if pos.len() > 40 && !ctx.rng.chance(3000, pos.len() * (pos.len() - 1) / 2) {
                                continue;
                            }
                            if ctx.mine(item) {
                                let cw = valid_codeword(&mut ctx.rng, r, &rs, i + j);
                                let reps = if thorough { 4 } else { 1 };
                                for _ in 0..reps {
                                    let (a, c) = (1 + ctx.rng.below(255) as u8, 1 + ctx.rng.below(255) as u8);
                                    eval(ctx, r, &cw, &[(pos[i], a), (pos[j], c)], "E2_pairs_in_block");
                                }
                            }
                            item += 1;
                            n += 1;
                            if n >= limit {
                                break 'outer;
                            }
                        }
                    }
                }
            }
        }
        // E3: random patterns, every weight 1..t, all blocks at once
        let n3 = ctx.budget(if r.total() > 300 { 16 * 100 } else { 16 * 400 }, if r.total() > 300 { 16 * 2500 } else { 16 * 10000 });
        for i in 0..n3 as usize {
            let cw = valid_codeword(&mut ctx.rng, r, &rs, 3 - (i % 2));
            let weights: Vec<usize> = match i % 4 {
                0 => vec![t; r.blocks],                                             // full capacity in all blocks
                1 => (0..r.blocks).map(|_| ctx.rng.range(0, t)).collect(),           // mixed
                2 => (0..r.blocks).map(|b| if b == i / 4 % r.blocks { t } else { 0 }).collect(), // one block at capacity
                _ => (0..r.blocks).map(|_| ctx.rng.range(1, t)).collect(),
            };
            let mut e = pattern(&mut ctx.rng, r, &weights);
            if i % 8 == 2 && r.blocks > 1 {
                // all errors in the error-codeword part of one block >= 1
                let b = 1 + ctx.rng.below(r.blocks - 1);
                let pos = r.block_positions(b);
                let nd = r.block_data_len(b);
                let mut ps: Vec<usize> = pos[nd..].to_vec();
                ctx.rng.shuffle(&mut ps);
                e = ps.iter().take(t).map(|p| (*p, 1 + ctx.rng.below(255) as u8)).collect();
            }
            eval(ctx, r, &cw, &e, "E3_random_weight_le_t");
        }
        // E5: patterns of weight w <= t whose first w syndromes are *structured* (geometric, sparse, constant,
        // low-order recurrences ...): still within the guarantee, but they drive the locator search through
        // its singular branches with long jumps, which random error values practically never do
        let n5 = ctx.budget(if r.total() > 300 { 16 * 30 } else { 16 * 120 }, if r.total() > 300 { 16 * 800 } else { 16 * 3000 });
        for i in 0..n5 as usize {
            let cw = valid_codeword(&mut ctx.rng, r, &rs, 3);
            let b = ctx.rng.below(r.blocks);
            let w = if i % 3 == 0 { t } else { ctx.rng.range(2.min(t), t) };
            let target = structured_syndromes(&mut ctx.rng, w);
            if let Some(e) = pattern_with_syndromes(&mut ctx.rng, r, b, w, &target) {
                eval(ctx, r, &cw, &e, "E5_structured_syndromes_weight_le_t");
            } else {
                ctx.count("E5.unrealisable_target_skipped");
            }
        }
        // E6: errors at equally spaced in-block locations i0 + j*d with d*v = 255 (the locator is then a binomial
        // 1 + a x^v) and at other arithmetic progressions / sparse-locator patterns; any values
        for b in 0..r.blocks {
            let pos = r.block_positions(b);
            let n = pos.len();
            for (v, d) in [(3usize, 85usize), (5, 51), (15, 17), (17, 15)] {
                if v > t || (v - 1) * d >= n {
                    continue;
                }
                let maxi0 = n - 1 - (v - 1) * d;
                for rep in 0..3 {
                    if !ctx.mine(item) {
                        item += 1;
                        continue;
                    }
                    item += 1;
                    let i0 = if rep == 0 { 0 } else if rep == 1 { maxi0 } else { ctx.rng.below(maxi0 + 1) };
                    let cw = valid_codeword(&mut ctx.rng, r, &rs, 3);
                    let e: Vec<(usize, u8)> = (0..v).map(|j| (pos[i0 + j * d], 1 + ctx.rng.below(255) as u8)).collect();
                    eval(ctx, r, &cw, &e, "E6_equally_spaced_positions");
                }
            }
            // general arithmetic progressions of length w <= t
            for _ in 0..ctx.budget(16 * 2, 16 * 40) {
                let w = ctx.rng.range(2.min(t), t);
                let dmax = ((n - 1) / (w.max(2) - 1)).max(1);
                let d = ctx.rng.range(1, dmax);
                let i0 = ctx.rng.below(n - (w - 1) * d);
                let cw = valid_codeword(&mut ctx.rng, r, &rs, 3);
                let e: Vec<(usize, u8)> = (0..w).map(|j| (pos[i0 + j * d], 1 + ctx.rng.below(255) as u8)).collect();
                eval(ctx, r, &cw, &e, "E6_arithmetic_progressions");
            }
        }
        // E4: pixel level
        let n4 = ctx.budget(16 * 25, 16 * 500);
        for i in 0..n4 as usize {
            let len = ctx.rng.below(r.data / 2 + 1);
            let msg: Vec<u8> = (0..len).map(|_| *ctx.rng.pick(b"ABCDEFGHIJ0123456789 abc,.")).collect();
            let weights: Vec<usize> = if i % 2 == 0 { vec![t; r.blocks] } else { (0..r.blocks).map(|_| ctx.rng.range(0, t)).collect() };
            let e = pattern(&mut ctx.rng, r, &weights);
            eval_px(ctx, r, &msg, &e);
        }
    }
    ctx.exhaustive.insert("E1_every_single_position_of_every_size".into(), true);
    if thorough {
        ctx.exhaustive.insert("E2_10x10_all_position_pairs_x_all_value_pairs".into(), true);
    }
}

pub fn replay(ctx: &mut Ctx, case: &Case) {
    let Some(r) = case.get("size").and_then(cat::by_name) else { return ctx.harness_error("bad size") };
    let e = parse_errs(case.get("errs").unwrap_or(""));
    match case.kind.as_str() {
        "rs_correct" => eval(ctx, r, &case.get_bytes("cw"), &e, "replay"),
        "px_correct" => eval_px(ctx, r, &case.get_bytes("msg"), &e),
        _ => ctx.harness_error("unknown case kind"),
    }
}
