//! C07 — module placement conforms to ISO/IEC 16022 Annex F and ISO/IEC 21471.
use crate::ctx::{guard, Case, Ctx};
use crate::json::J;
use crate::refimpl::cat::{self, Row, CAT};
use crate::refimpl::place::{render, symbol_pos, Placement};
use crate::rng::hash64;
use datamatrix::placement::{Bit, MatrixMap};

#[derive(Clone, Copy, PartialEq, Debug)]
pub struct Tag(pub u32);

impl Bit for Tag {
    const LOW: Tag = Tag(0);
    const HIGH: Tag = Tag(u32::MAX);
}

/// the complete (codeword, bit) -> module map of one size, observed through traverse_mut with a
/// tagging Bit type, compared with R-PLACE module by module
pub fn eval_map(ctx: &mut Ctx, r: &Row) {
    ctx.eval();
    let case = Case::new("place_map").with("size", r.name);
    let size = r.size;
    let res = guard(|| {
        let mut m = MatrixMap::<Tag>::new(size);
        let mut order: Vec<usize> = Vec::new();
        m.traverse_mut(|idx, bits| {
            order.push(idx);
            for (j, b) in bits.into_iter().enumerate() {
                *b = Tag((idx * 8 + j + 1) as u32);
            }
        });
        m.write_padding();
        // read back through the immutable traversal
        let mut read: Vec<(usize, [Tag; 8])> = Vec::new();
        m.traverse(|idx, bits| read.push((idx, bits)));
        let bm = m.bitmap();
        (order, read, bm.width(), bm.bits().to_vec())
    });
    let (order, read, width, bits) = match res {
        Ok(x) => x,
        Err(p) => return ctx.violation("panic", &case, p),
    };
    if width != r.cols || bits.len() != r.rows * r.cols {
        return ctx.violation("dims", &case, format!("bitmap {}x{}", width, bits.len() / width.max(1)));
    }
    // every codeword exactly once; the order of the callbacks is not part of the statement (recorded only)
    let mut sorted = order.clone();
    sorted.sort();
    if sorted != (0..r.total()).collect::<Vec<_>>() {
        return ctx.violation("codeword_order", &case, format!("traverse_mut visited {} codewords, not each of 0..{} exactly once", order.len(), r.total()));
    }
    if sorted != order {
        ctx.count("callbacks_not_in_index_order(not judged)");
    }
    let mut ridx: Vec<usize> = read.iter().map(|x| x.0).collect();
    ridx.sort();
    if ridx != sorted {
        return ctx.violation("codeword_order", &case, format!("traverse visited {} codewords, not each of 0..{} exactly once", ridx.len(), r.total()));
    }
    for (idx, tags) in &read {
        for j in 0..8 {
            if tags[j] != Tag((idx * 8 + j + 1) as u32) {
                return ctx.violation("traverse_readback", &case, format!("traverse() hands out a different module for codeword {} bit {}", idx, j + 1));
            }
        }
    }
    let pl = Placement::for_row(r);
    let mut seen = vec![false; 8 * r.total() + 1];
    let n = r.map_rows() * r.map_cols();
    for i in 0..n {
        let got = bits[symbol_pos(r, i)];
        match pl.cell[i] {
            Some((chr, bit)) => {
                let want = Tag((chr * 8 + bit as usize) as u32);
                if got != want {
                    let gd = if got.0 == 0 || got.0 == u32::MAX { format!("{:?}", got) } else { format!("codeword {} bit {}", (got.0 - 1) / 8, (got.0 - 1) % 8 + 1) };
                    return ctx.violation("module_differs_from_annex_f", &case, format!("mapping matrix module (row {}, col {}): standard puts codeword {} bit {}, crate puts {}", i / r.map_cols(), i % r.map_cols(), chr, bit, gd));
                }
                if seen[got.0 as usize] {
                    return ctx.violation("not_bijective", &case, "tag seen twice");
                }
                seen[got.0 as usize] = true;
                ctx.count("modules_compared");
            }
            None => {
                // fixed corner pattern: dark at (h-2,w-2) and (h-1,w-1), light at the other two
                let (y, x) = (i / r.map_cols(), i % r.map_cols());
                let dark = (y == r.map_rows() - 2 && x == r.map_cols() - 2) || (y == r.map_rows() - 1 && x == r.map_cols() - 1);
                let want = if dark { Tag::HIGH } else { Tag::LOW };
                if got != want {
                    return ctx.violation("corner_pattern", &case, format!("left-over corner module ({},{}) is {:?}", y, x, got));
                }
                ctx.count("corner_pattern_modules");
            }
        }
    }
    if !seen[1..].iter().all(|s| *s) {
        return ctx.violation("not_bijective", &case, "some codeword bit has no module");
    }
    ctx.nontrivial(hash64(format!("map{}", r.name).as_bytes()));
    ctx.count("sizes_full_map");
    ctx.sample(|| J::obj().set("size", J::s(r.name)).set("kind", J::s("full (codeword,bit)->module map vs R-PLACE")).set("modules", J::i(n)));
}

/// value independence: new_with_codewords(v).bitmap() == R-FINDER(R-PLACE(v)); codewords() == v
pub fn eval_vec(ctx: &mut Ctx, r: &Row, pl: &Placement, v: &[u8], tag: &str) {
    ctx.eval();
    let size = r.size;
    let res = guard(|| {
        let m = MatrixMap::new_with_codewords(v, size);
        let bm = m.bitmap();
        (m.codewords(), bm.width(), bm.bits().to_vec())
    });
    let case = || Case::new("place_vec").with("size", r.name).bytes("cw", v);
    match res {
        Err(p) => ctx.violation("panic", &case(), p),
        Ok((back, width, bits)) => {
            let want = render(r, &pl.fill(v));
            if width != r.cols || bits != want {
                let d = bits.iter().zip(&want).position(|(a, b)| a != b);
                ctx.violation("bitmap_differs_from_standard", &case(), format!("first differing module index {:?} (width {})", d, width));
            } else if back != v {
                ctx.violation("codewords_readback", &case(), "codewords() does not invert new_with_codewords()");
            } else {
                ctx.count(&format!("vec.{}", tag));
                if v.iter().any(|x| *x != 0) {
                    let mut key = r.name.as_bytes().to_vec();
                    key.extend_from_slice(v);
                    ctx.nontrivial(hash64(&key));
                }
            }
        }
    }
}

/// history: one MatrixMap object filled several times (traverse_mut + write_padding), read in between;
/// after every fill it must equal a freshly built map of the same codewords
pub fn eval_reuse(ctx: &mut Ctx, r: &Row, pl: &Placement, vs: &[Vec<u8>]) {
    ctx.eval();
    let size = r.size;
    let case = || {
        let mut c = Case::new("place_reuse").with("size", r.name).with("n", vs.len());
        for (i, v) in vs.iter().enumerate() {
            c = c.bytes(&format!("cw{}", i), v);
        }
        c
    };
    let res = guard(|| {
        let mut m = MatrixMap::<bool>::new(size);
        let mut outs = Vec::new();
        for v in vs {
            let mut visited = 0usize;
            m.traverse_mut(|idx, bits| {
                visited += 1;
                let mut cw = v[idx];
                for bit in bits.into_iter().rev() {
                    *bit = cw & 1 == 1;
                    cw >>= 1;
                }
            });
            m.write_padding();
            let bm = m.bitmap();
            outs.push((visited, m.codewords(), bm.bits().to_vec(), m == MatrixMap::new_with_codewords(v, size)));
        }
        outs
    });
    match res {
        Err(p) => ctx.violation("panic", &case(), p),
        Ok(outs) => {
            for (k, (visited, back, bits, same)) in outs.iter().enumerate() {
                let want = render(r, &pl.fill(&vs[k]));
                if *visited != r.total() {
                    return ctx.violation("reuse_codewords_skipped", &case(), format!("fill #{} of the same map visited {} of {} codewords", k + 1, visited, r.total()));
                }
                if back != &vs[k] || bits != &want || !*same {
                    return ctx.violation("reuse_differs_from_fresh_map", &case(), format!("after fill #{} the reused map differs from a fresh one (codewords equal: {}, bitmap equal: {}, == fresh: {})", k + 1, back == &vs[k], bits == &want, same));
                }
            }
            ctx.count("reuse.ok");
            let mut key = b"reuse".to_vec();
            key.extend_from_slice(r.name.as_bytes());
            for v in vs {
                key.extend_from_slice(&v[..v.len().min(8)]);
            }
            ctx.nontrivial(hash64(&key));
        }
    }
}

/// history with visitors that do not assign all eight modules: read through the mutable references, invert in
/// place, write high nibbles and low nibbles in separate passes, skip every other codeword
pub fn eval_partial_visitors(ctx: &mut Ctx, r: &Row, v: &[u8]) {
    ctx.eval();
    let size = r.size;
    let case = || Case::new("place_partial").with("size", r.name).bytes("cw", v);
    let res = guard(|| {
        let mut m = MatrixMap::new_with_codewords(v, size);
        // (a) read through traverse_mut, write nothing
        let mut read = vec![0u8; v.len()];
        m.traverse_mut(|idx, bits| {
            let mut c = 0u8;
            for b in bits.iter() {
                c = (c << 1) | (**b as u8);
            }
            read[idx] = c;
        });
        let after_read = m.codewords();
        // (b) invert in place
        m.traverse_mut(|_, bits| {
            for b in bits {
                *b = !*b;
            }
        });
        let after_invert = m.codewords();
        // (c) overwrite only the high nibble of every codeword with 1010, then only every other codeword's low nibble with 0101
        m.traverse_mut(|_, bits| {
            for (j, b) in bits.into_iter().enumerate() {
                if j < 4 {
                    *b = j % 2 == 0;
                }
            }
        });
        let after_high = m.codewords();
        m.traverse_mut(|idx, bits| {
            if idx % 2 == 0 {
                for (j, b) in bits.into_iter().enumerate() {
                    if j >= 4 {
                        *b = j % 2 == 1;
                    }
                }
            }
        });
        (read, after_read, after_invert, after_high, m.codewords())
    });
    match res {
        Err(p) => ctx.violation("panic", &case(), p),
        Ok((read, after_read, after_invert, after_high, after_low)) => {
            let inv: Vec<u8> = v.iter().map(|c| !c).collect();
            let high: Vec<u8> = inv.iter().map(|c| 0xA0 | (c & 0x0F)).collect();
            let low: Vec<u8> = high.iter().enumerate().map(|(i, c)| if i % 2 == 0 { (c & 0xF0) | 0x05 } else { *c }).collect();
            for (name, got, want) in [("read_through_mut", &read, v), ("unchanged_after_read", &after_read, v), ("inverted_in_place", &after_invert, &inv[..]), ("high_nibbles_only", &after_high, &high[..]), ("low_nibbles_of_even_codewords", &after_low, &low[..])] {
                if &got[..] != want {
                    let p = got.iter().zip(want).position(|(a, b)| a != b);
                    return ctx.violation("partial_visitor_loses_content", &case(), format!("{}: codeword {:?} differs (a visitor that does not assign every module must leave the others as they were)", name, p));
                }
            }
            ctx.count("partial_visitors.ok");
            let mut key = b"partial".to_vec();
            key.extend_from_slice(r.name.as_bytes());
            key.extend_from_slice(&v[..v.len().min(12)]);
            ctx.nontrivial(hash64(&key));
        }
    }
}

/// the symbol object's own rendering: `DataMatrix::bitmap()` of an encoded message must be the standard placement of
/// `DataMatrix::codewords()` (all entry points that hand out a symbol go through it)
pub fn eval_symbol(ctx: &mut Ctx, r: &Row, pl: &Placement, msg: &[u8], entry: u8) {
    ctx.eval();
    let size = r.size;
    let case = || Case::new("place_symbol").with("size", r.name).bytes("msg", msg).with("entry", entry);
    let res = guard(|| {
        let dm = match entry {
            0 => datamatrix::DataMatrix::encode(msg, size),
            1 => datamatrix::DataMatrix::encode_gs1(msg, size),
            2 => datamatrix::DataMatrixBuilder::new().with_symbol_list(size).with_macros(false).encode(msg),
            _ => match std::str::from_utf8(msg) {
                Ok(s) => datamatrix::DataMatrix::encode_str(s, size),
                Err(_) => datamatrix::DataMatrix::encode(msg, size),
            },
        };
        dm.map(|dm| {
            let bm = dm.bitmap();
            (dm.codewords().to_vec(), bm.width(), bm.height(), bm.bits().to_vec())
        })
    });
    match res {
        Err(p) => ctx.violation("panic", &case(), p),
        Ok(Err(_)) => ctx.count("symbol.encode_refused"),
        Ok(Ok((cw, w, h, bits))) => {
            if cw.len() != r.total() || w != r.cols || h != r.rows {
                return ctx.violation("dims", &case(), format!("{} codewords, bitmap {}x{}", cw.len(), w, h));
            }
            let want = render(r, &pl.fill(&cw));
            if bits != want {
                let d = bits.iter().zip(&want).position(|(a, b)| a != b);
                return ctx.violation("bitmap_differs_from_standard", &case(), format!("DataMatrix::bitmap(): first differing module index {:?} (width {})", d, w));
            }
            ctx.count("symbol.bitmap_ok");
            let mut key = b"sym".to_vec();
            key.extend_from_slice(r.name.as_bytes());
            key.extend_from_slice(&cw[..cw.len().min(12)]);
            key.push(entry);
            ctx.nontrivial(hash64(&key));
        }
    }
}

pub fn run(ctx: &mut Ctx) {
    let thorough = ctx.is_thorough();
    let mut item = 0usize;
    let mut all_bits = true;
    for r in CAT.iter() {
        if ctx.mine(item) {
            eval_map(ctx, r);
        }
        item += 1;
        let pl = Placement::for_row(r);
        for (tag, v) in [("zero", vec![0u8; r.total()]), ("ones", vec![0xFF; r.total()])] {
            if ctx.mine(item) {
                eval_vec(ctx, r, &pl, &v, tag);
            }
            item += 1;
        }
        let complete = thorough || r.rows * r.cols <= 144 * 144;
        all_bits &= complete;
        let nb = 8 * r.total();
        let step = if complete { 1 } else { 61 };
        let mut b = 0;
        while b < nb {
            if ctx.mine(item) {
                let mut v = vec![0u8; r.total()];
                v[b / 8] = 0x80 >> (b % 8);
                eval_vec(ctx, r, &pl, &v, "single_bit");
            }
            item += 1;
            b += step;
        }
        for k in 0..ctx.budget(16 * 8, 16 * 80) as usize {
            let len = ctx.rng.below(r.data / 2 + 2);
            let msg: Vec<u8> = (0..len).map(|_| *ctx.rng.pick(b"ABCabc0123456789 ,.*")).collect();
            eval_symbol(ctx, r, &pl, &msg, (k % 4) as u8);
        }
        let nr = ctx.budget(16 * 60, 16 * 600);
        for k in 0..nr {
            let v = ctx.rng.bytes(r.total());
            eval_vec(ctx, r, &pl, &v, "random");
            if k % 4 == 0 {
                let n = ctx.rng.range(2, 4);
                let vs: Vec<Vec<u8>> = (0..n).map(|j| match (j + k as usize) % 3 { 0 => ctx.rng.bytes(r.total()), 1 => vec![0xFF; r.total()], _ => vec![0; r.total()] }).collect();
                eval_reuse(ctx, r, &pl, &vs);
                eval_partial_visitors(ctx, r, &v);
            }
        }
    }
    ctx.exhaustive.insert("48_sizes_x_every_codeword_bit_pair".into(), true);
    ctx.exhaustive.insert("single_bit_vectors_all_sizes".into(), all_bits);
}

pub fn replay(ctx: &mut Ctx, case: &Case) {
    let Some(r) = case.get("size").and_then(cat::by_name) else { return ctx.harness_error("bad size") };
    match case.kind.as_str() {
        "place_map" => eval_map(ctx, r),
        "place_vec" => eval_vec(ctx, r, &Placement::for_row(r), &case.get_bytes("cw"), "replay"),
        "place_partial" => eval_partial_visitors(ctx, r, &case.get_bytes("cw")),
        "place_symbol" => eval_symbol(ctx, r, &Placement::for_row(r), &case.get_bytes("msg"), case.get_usize("entry") as u8),
        "place_reuse" => {
            let vs: Vec<Vec<u8>> = (0..case.get_usize("n")).map(|i| case.get_bytes(&format!("cw{}", i))).collect();
            eval_reuse(ctx, r, &Placement::for_row(r), &vs);
        }
        _ => ctx.harness_error("unknown case kind"),
    }
}
