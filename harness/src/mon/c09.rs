//! C09 — error correction never reports success on a word that is not a codeword.
use crate::ctx::{guard, Case, Ctx};
use crate::gen::rswords::{add_vanishing, add_virtual_error, add_with_roots, apply, pattern, pattern_with_syndromes, random_root_set, set_all_syndromes, structured_syndromes, valid_codeword};
use crate::json::{hex, J};
use crate::refimpl::cat::{self, Row, CAT};
use crate::refimpl::gf::{first_bad_block, Rs};
use crate::rng::hash64;
use datamatrix::errorcode::{decode_error, encode_error};

fn case_for(r: &Row, word: &[u8]) -> Case {
    Case::new("rs_beyond").with("size", r.name).bytes("word", word)
}

pub fn eval(ctx: &mut Ctx, r: &Row, rs: &Rs, word: &[u8], tag: &str) {
    ctx.eval();
    let size = r.size;
    let mut w = word.to_vec();
    let res = guard(|| {
        let res = decode_error(&mut w, size);
        (res, w)
    });
    match res {
        Err(_) => {
            // panics are C05's subject; counted here, not reported twice
            ctx.count("outcome.panic(C05)");
        }
        Ok((Err(_), _)) => ctx.count("outcome.err"),
        Ok((Ok(()), w)) => {
            let bad = first_bad_block(r, rs, &w);
            let reenc = guard(|| encode_error(&w[..r.data], size)).ok();
            let enc_ok = reenc.as_deref() == Some(&w[r.data..]);
            if let Some((b, j)) = bad {
                ctx.violation("ok_on_non_codeword", &case_for(r, word), format!("decode_error returned Ok but block {} has syndrome S_{} != 0 (k={}); re-encoding data part reproduces ecc part: {}", b, j, r.k(), enc_ok));
            } else if !enc_ok {
                ctx.violation("ok_word_not_reencodable", &case_for(r, word), "R-RS accepts the word but encode_error(data part) != ecc part");
            } else {
                if w == word {
                    ctx.count("outcome.ok_unchanged_codeword");
                } else {
                    ctx.count("outcome.ok_corrected_to_codeword");
                }
            }
            let mut key = r.name.as_bytes().to_vec();
            key.extend_from_slice(word);
            ctx.nontrivial(hash64(&key));
            ctx.sample(|| J::obj().set("size", J::s(r.name)).set("workload", J::s(tag)).set("received_prefix", J::s(hex(&word[..word.len().min(16)]))).set("outcome", J::s("Ok; word left behind checked with R-RS syndromes and by re-encoding")));
        }
    }
    ctx.count(&format!("workload.{}", tag));
    if r.k() % 2 == 1 {
        ctx.count("odd_k_words");
    }
}

pub fn gen_word(ctx: &mut Ctx, r: &Row, rs: &Rs, kind: usize) -> (Vec<u8>, &'static str) {
    let (t, k) = (r.k() / 2, r.k());
    match kind % 10 {
        8 => {
            let mut cw = valid_codeword(&mut ctx.rng, r, rs, 3);
            let b = ctx.rng.below(r.blocks);
            let target = structured_syndromes(&mut ctx.rng, k);
            set_all_syndromes(r, &mut cw, b, &target);
            // optionally a few ordinary errors on top
            if ctx.rng.chance(1, 2) {
                let w: Vec<usize> = (0..r.blocks).map(|x| if x == b { ctx.rng.range(1, t) } else { 0 }).collect();
                let pat = pattern(&mut ctx.rng, r, &w);
                cw = apply(&cw, &pat);
            }
            (cw, "structured_syndromes_all_k")
        }
        9 => {
            // weight-(t+1) pattern whose first t+1 syndromes are structured
            let cw = valid_codeword(&mut ctx.rng, r, rs, 3);
            let b = ctx.rng.below(r.blocks);
            let w = (t + 1 + ctx.rng.below(2)).min(r.block_positions(b).len() - 1);
            let target = structured_syndromes(&mut ctx.rng, w);
            match pattern_with_syndromes(&mut ctx.rng, r, b, w, &target) {
                Some(e) => (apply(&cw, &e), "structured_syndromes_weight_gt_t"),
                None => (ctx.rng.bytes(r.total()), "noise"),
            }
        }
        7 => {
            // error location at or beyond the end of the block (virtual position), alone or with real errors
            let mut cw = valid_codeword(&mut ctx.rng, r, rs, 3);
            let b = ctx.rng.below(r.blocks);
            let n = r.block_positions(b).len();
            let p = if ctx.rng.chance(1, 2) { n } else { ctx.rng.range(n, 254) };
            let e = 1 + ctx.rng.below(255) as u8;
            add_virtual_error(r, rs, &mut cw, b, p, e);
            if ctx.rng.chance(1, 2) {
                let w: Vec<usize> = (0..r.blocks).map(|x| if x == b { ctx.rng.range(1, t) } else { 0 }).collect();
                let pat = pattern(&mut ctx.rng, r, &w);
                cw = apply(&cw, &pat);
            }
            (cw, "virtual_error_position_ge_n")
        }
        6 => {
            let mut cw = valid_codeword(&mut ctx.rng, r, rs, 3);
            let b = ctx.rng.below(r.blocks);
            let roots = random_root_set(&mut ctx.rng, k);
            let qd = ctx.rng.below(3);
            add_with_roots(&mut ctx.rng, r, &mut cw, b, &roots, qd);
            (cw, "subset_of_syndromes_vanishes")
        }
        0 => (ctx.rng.bytes(r.total()), "noise"),
        1 => {
            // weight t+1..k in one block, others clean
            let cw = valid_codeword(&mut ctx.rng, r, rs, 3);
            let b = ctx.rng.below(r.blocks);
            let w: Vec<usize> = (0..r.blocks).map(|x| if x == b { ctx.rng.range(t + 1, k) } else { 0 }).collect();
            (apply(&cw, &pattern(&mut ctx.rng, r, &w)), "beyond_radius_one_block")
        }
        2 => {
            let cw = valid_codeword(&mut ctx.rng, r, rs, 3);
            let w: Vec<usize> = (0..r.blocks).map(|_| t + 1).collect();
            (apply(&cw, &pattern(&mut ctx.rng, r, &w)), "t_plus_1_every_block")
        }
        3 => {
            // mixture: some blocks within radius, one just beyond
            let cw = valid_codeword(&mut ctx.rng, r, rs, 3);
            let b = ctx.rng.below(r.blocks);
            let w: Vec<usize> = (0..r.blocks).map(|x| if x == b { t + 1 + ctx.rng.below(2) } else { ctx.rng.range(0, t) }).collect();
            (apply(&cw, &pattern(&mut ctx.rng, r, &w)), "mixed_within_and_beyond")
        }
        4 => {
            let mut cw = valid_codeword(&mut ctx.rng, r, rs, 3);
            let b = ctx.rng.below(r.blocks);
            let j = ctx.rng.range(1, k - 1);
            let qd = ctx.rng.below(4);
            add_vanishing(&mut ctx.rng, r, &mut cw, b, j, qd);
            (cw, "vanishing_leading_syndromes")
        }
        _ => {
            // noise in one block only, rest a codeword
            let mut cw = valid_codeword(&mut ctx.rng, r, rs, 3);
            let b = ctx.rng.below(r.blocks);
            for p in r.block_positions(b) {
                cw[p] = ctx.rng.byte();
            }
            (cw, "noise_one_block")
        }
    }
}

pub fn run(ctx: &mut Ctx) {
    for r in CAT.iter() {
        let rs = Rs::new(r.k());
        let odd = r.k() % 2 == 1;
        let base_q = if r.total() > 300 { 16 * 150 } else { 16 * 1500 };
        let base_t = if r.total() > 300 { 16 * 15_000 } else { 16 * 150_000 };
        let mult = if odd { 20 } else { 1 };
        let n = ctx.budget(base_q * mult, base_t * mult);
        for i in 0..n as usize {
            let (w, tag) = gen_word(ctx, r, &rs, i);
            eval(ctx, r, &rs, &w, tag);
        }
        // words in the neighbourhood of what the crate's OWN encoder calls a codeword (data + encode_error): if the
        // encoder and the decoder ever agree on something other than the standard's code, success is reported here on
        // words that the independent syndromes reject
        for i in 0..ctx.budget(16 * 6, 16 * 200) as usize {
            let data = ctx.rng.bytes(r.data);
            let size = r.size;
            let Ok(ecc) = guard(|| encode_error(&data, size)) else { continue };
            let mut w = data;
            w.extend(ecc);
            if w.len() != r.total() {
                continue;
            }
            let t = r.k() / 2;
            let weights: Vec<usize> = (0..r.blocks).map(|b| if i % 3 == 0 { 0 } else { ctx.rng.below(t + 1).min(r.block_positions(b).len() - 1) }).collect();
            let pat = pattern(&mut ctx.rng, r, &weights);
            let w = apply(&w, &pat);
            eval(ctx, r, &rs, &w, "near_the_crates_own_encoder_output");
        }
    }
    // 10x10: codeword + weight-3 patterns (t = 2), sampled
    let r = cat::by_name("Square10").unwrap();
    let rs = Rs::new(5);
    let n = ctx.budget(400_000, 20_000_000);
    for _ in 0..n {
        let cw = valid_codeword(&mut ctx.rng, r, &rs, 3);
        let w = apply(&cw, &pattern(&mut ctx.rng, r, &[3]));
        eval(ctx, r, &rs, &w, "10x10_weight3");
    }
}

pub fn replay(ctx: &mut Ctx, case: &Case) {
    let Some(r) = case.get("size").and_then(cat::by_name) else { return ctx.harness_error("bad size") };
    let rs = Rs::new(r.k());
    eval(ctx, r, &rs, &case.get_bytes("word"), "replay");
}
