//! C12 — symbol catalogue and symbol-list filters match the standards.
use crate::ctx::{guard, Case, Ctx};
use crate::json::J;
use crate::refimpl::cat::{self, Row, CAT};
use crate::refimpl::gf::{first_bad_block, Rs};
use crate::refimpl::place::{render, Placement};
use crate::rng::hash64;
use datamatrix::placement::MatrixMap;
use datamatrix::{DataMatrix, SymbolList, SymbolSize};
use std::ops::Bound;

fn names(l: &SymbolList) -> Vec<&'static str> {
    l.iter().map(|s| cat::row_of(s).name).collect()
}

/// attributes of one size through the public API
pub fn eval_size(ctx: &mut Ctx, r: &Row) {
    ctx.eval();
    let case = Case::new("cat_size").with("size", r.name);
    let size = r.size;
    let res = guard(|| {
        let dm = DataMatrix::encode(b"", size);
        dm.map(|dm| {
            let bm = dm.bitmap();
            (dm.size, dm.data_codewords().len(), dm.codewords().len(), bm.width(), bm.height())
        })
    });
    match res {
        Err(p) => return ctx.violation("panic", &case, p),
        Ok(Err(e)) => return ctx.violation("empty_message_refused", &case, format!("{:?}", e)),
        Ok(Ok((s, nd, nt, w, h))) => {
            if s != size || nd != r.data || nt != r.total() || w != r.cols || h != r.rows {
                return ctx.violation(
                    "attribute_differs_from_standard",
                    &case,
                    format!("crate: size {:?} data {} total {} {}x{} (rows x cols); standard: data {} ecc {} {}x{}", s, nd, nt, h, w, r.data, r.ecc, r.rows, r.cols),
                );
            }
        }
    }
    // region layout: all-zero content shows exactly the finder/alignment grid of R-FINDER
    let zero = vec![0u8; r.total()];
    let pl = Placement::for_row(r);
    let want = render(r, &pl.fill(&zero));
    match guard(|| {
        let bm = MatrixMap::new_with_codewords(&zero, size).bitmap();
        (bm.width(), bm.bits().to_vec())
    }) {
        Err(p) => return ctx.violation("panic", &case, p),
        Ok((w, bits)) => {
            if w != r.cols || bits != want {
                return ctx.violation("region_layout_differs", &case, format!("standard: {}x{} data regions of {}x{} modules", r.reg_v, r.reg_h, r.reg_rows(), r.reg_cols()));
            }
        }
    }
    // pixel dimensions identify the size
    match guard(|| MatrixMap::<bool>::try_from_bits(&want, r.cols).map(|x| x.1)) {
        Ok(Ok(s)) if s == size => {}
        other => return ctx.violation("size_detection", &case, format!("{:?}", other)),
    }
    // block structure: B blocks of k check symbols as in the standard
    let rs = Rs::new(r.k());
    let data = ctx.rng.bytes(r.data);
    match guard(|| datamatrix::errorcode::encode_error(&data, size)) {
        Err(p) => return ctx.violation("panic", &case, p),
        Ok(ecc) => {
            let mut full = data.clone();
            full.extend_from_slice(&ecc);
            if ecc.len() != r.ecc || first_bad_block(r, &rs, &full).is_some() {
                return ctx.violation("block_structure_differs", &case, format!("standard: {} blocks x {} error codewords", r.blocks, r.k()));
            }
        }
    }
    ctx.count("sizes_checked");
    ctx.count_n("attributes_checked", 6);
    ctx.nontrivial(hash64(format!("size{}", r.name).as_bytes()));
    ctx.sample(|| J::obj().set("size", J::s(r.name)).set("data", J::i(r.data)).set("ecc", J::i(r.ecc)).set("blocks", J::i(r.blocks)).set("regions", J::s(format!("{}x{}", r.reg_v, r.reg_h))));
}

#[derive(Clone, Debug)]
pub enum Filter {
    Square,
    Rect,
    Width(Bound<usize>, Bound<usize>),
    Height(Bound<usize>, Bound<usize>),
}

fn bound_str(b: &Bound<usize>) -> String {
    match b {
        Bound::Included(x) => format!("i{}", x),
        Bound::Excluded(x) => format!("e{}", x),
        Bound::Unbounded => "u".into(),
    }
}

fn bound_parse(s: &str) -> Bound<usize> {
    match s.split_at(1) {
        ("i", n) => Bound::Included(n.parse().unwrap_or(0)),
        ("e", n) => Bound::Excluded(n.parse().unwrap_or(0)),
        _ => Bound::Unbounded,
    }
}

impl Filter {
    fn to_s(&self) -> String {
        match self {
            Filter::Square => "sq".into(),
            Filter::Rect => "re".into(),
            Filter::Width(a, b) => format!("w.{}.{}", bound_str(a), bound_str(b)),
            Filter::Height(a, b) => format!("h.{}.{}", bound_str(a), bound_str(b)),
        }
    }
    fn parse(s: &str) -> Option<Filter> {
        let p: Vec<&str> = s.split('.').collect();
        Some(match p[0] {
            "sq" => Filter::Square,
            "re" => Filter::Rect,
            "w" => Filter::Width(bound_parse(p.get(1)?), bound_parse(p.get(2)?)),
            "h" => Filter::Height(bound_parse(p.get(1)?), bound_parse(p.get(2)?)),
            _ => return None,
        })
    }
    fn apply(&self, l: SymbolList) -> SymbolList {
        match self {
            Filter::Square => l.enforce_square(),
            Filter::Rect => l.enforce_rectangular(),
            Filter::Width(a, b) => l.enforce_width_in((*a, *b)),
            Filter::Height(a, b) => l.enforce_height_in((*a, *b)),
        }
    }
    fn pred(&self, r: &Row) -> bool {
        fn within(v: usize, a: &Bound<usize>, b: &Bound<usize>) -> bool {
            (match a {
                Bound::Included(x) => v >= *x,
                Bound::Excluded(x) => v > *x,
                Bound::Unbounded => true,
            }) && (match b {
                Bound::Included(x) => v <= *x,
                Bound::Excluded(x) => v < *x,
                Bound::Unbounded => true,
            })
        }
        match self {
            Filter::Square => r.rows == r.cols,
            Filter::Rect => r.rows != r.cols,
            Filter::Width(a, b) => within(r.cols, a, b),
            Filter::Height(a, b) => within(r.rows, a, b),
        }
    }
}

fn base_list(spec: &str) -> Option<SymbolList> {
    crate::util::list_from_spec(spec)
}

/// filters applied to a base list keep exactly the symbols satisfying all predicates, in capacity order
pub fn eval_filters(ctx: &mut Ctx, base: &str, chain: &[Filter]) {
    ctx.eval();
    let case = || Case::new("cat_filter").with("base", base).with("chain", chain.iter().map(|f| f.to_s()).collect::<Vec<_>>().join("+"));
    let Some(l0) = base_list(base) else { return ctx.harness_error("bad base list") };
    let res = guard(|| {
        let mut l = l0;
        for f in chain {
            l = f.apply(l);
        }
        let it: Vec<SymbolSize> = l.iter().collect();
        let contains: Vec<bool> = CAT.iter().map(|r| l.contains(&r.size)).collect();
        (it, contains, l.is_empty())
    });
    let (it, contains, empty) = match res {
        Ok(x) => x,
        Err(p) => return ctx.violation("panic", &case(), p),
    };
    let base_rows = crate::util::rows_from_spec(base);
    for (i, r) in CAT.iter().enumerate() {
        let want = base_rows.iter().any(|b| b.name == r.name) && chain.iter().all(|f| f.pred(r));
        if contains[i] != want {
            return ctx.violation("filter_membership", &case(), format!("{}: contains() = {}, predicate says {}", r.name, contains[i], want));
        }
        if it.contains(&r.size) != want {
            return ctx.violation("filter_iteration_membership", &case(), format!("{}: iterated = {}, predicate says {}", r.name, !want, want));
        }
    }
    let want_n = contains.iter().filter(|c| **c).count();
    // (a size given twice may be iterated twice: the statement does not say, so count distinct sizes)
    let mut distinct: Vec<&'static str> = it.iter().map(|s| cat::row_of(*s).name).collect();
    distinct.sort();
    distinct.dedup();
    if distinct.len() != want_n || empty != (want_n == 0) {
        return ctx.violation("filter_iteration_count", &case(), format!("{} iterated, {} expected, is_empty {}", it.len(), want_n, empty));
    }
    let caps: Vec<usize> = it.iter().map(|s| cat::row_of(*s).data).collect();
    if caps.windows(2).any(|w| w[0] > w[1]) {
        return ctx.violation("iteration_order", &case(), format!("capacities not non-decreasing: {:?}", caps));
    }
    ctx.count(&format!("filter_chain_len.{}", chain.len()));
    let mut key = base.as_bytes().to_vec();
    for f in chain {
        key.extend_from_slice(f.to_s().as_bytes());
        key.push(b'+');
    }
    ctx.nontrivial(hash64(&key));
}

pub fn eval_fixed_lists(ctx: &mut Ctx) {
    ctx.eval();
    let case = Case::new("cat_lists");
    let res = guard(|| (names(&SymbolList::default()), names(&SymbolList::with_extended_rectangles()), names(&SymbolList::all())));
    let (d, e, a) = match res {
        Ok(x) => x,
        Err(p) => return ctx.violation("panic", &case, p),
    };
    let set = |v: &Vec<&'static str>| {
        let mut s = v.clone();
        s.sort();
        s
    };
    let mut want_d: Vec<&str> = CAT.iter().filter(|r| r.iso16022).map(|r| r.name).collect();
    want_d.sort();
    let mut want_a: Vec<&str> = CAT.iter().map(|r| r.name).collect();
    want_a.sort();
    if d.len() != 30 || set(&d) != want_d {
        ctx.violation("default_list", &case, format!("default list has {} sizes: {:?}", d.len(), d));
    }
    if e.len() != 48 || set(&e) != want_a {
        ctx.violation("extended_list", &case, format!("extended list has {} sizes", e.len()));
    }
    if a.len() != 48 || set(&a) != want_a {
        ctx.violation("all_list", &case, format!("all() has {} sizes", a.len()));
    }
    ctx.count("fixed_lists_checked");
}

/// the symbol picked for an encoding is the first in iteration order that is large enough
pub fn eval_pick(ctx: &mut Ctx, spec: &str, msg: &[u8]) {
    ctx.eval();
    let case = || Case::new("cat_pick").with("list", spec).bytes("msg", msg);
    let Some(l) = base_list(spec) else { return ctx.harness_error("bad list") };
    let order: Vec<SymbolSize> = l.iter().collect();
    // the pick is promised for every entry point that takes a list: builder, DataMatrix::encode, encode_gs1 (one more
    // codeword in front)
    let entry = (hash64(msg) ^ hash64(spec.as_bytes())) % 4;
    let gs1 = entry == 3 && !msg.is_empty();
    let res = guard(|| {
        (match entry {
            0 | 1 => datamatrix::DataMatrixBuilder::new().with_symbol_list(l).with_macros(false).encode(msg),
            2 if !msg.starts_with(b"[)>") => datamatrix::DataMatrix::encode(msg, l),
            3 if gs1 => datamatrix::DataMatrix::encode_gs1(msg, l),
            _ => datamatrix::DataMatrixBuilder::new().with_symbol_list(l).with_macros(false).encode(msg),
        })
        .map(|dm| (dm.size, dm.data_codewords().to_vec()))
    });
    // a pure digit message needs exactly ceil(n/2) codewords (digit pairs cannot be beaten): then the expectation
    // does not depend on the encoder's own stream at all
    let digits_need = if !msg.is_empty() && msg.iter().all(|b| b.is_ascii_digit()) { Some((msg.len() + 1) / 2 + gs1 as usize) } else { None };
    if let Some(need) = digits_need {
        let first = order.iter().map(|s| cat::row_of(*s).data).filter(|c| *c >= need).min();
        match &res {
            Err(p) => return ctx.violation("panic", &case(), p.clone()),
            Ok(Err(e)) if first.is_some() => return ctx.violation("not_first_large_enough", &case(), format!("{} digits need {} codewords and capacity {:?} is listed, but encoding was refused: {:?}", msg.len(), need, first, e)),
            Ok(Ok((size, _))) if Some(cat::row_of(*size).data) != first => {
                return ctx.violation("not_first_large_enough", &case(), format!("{} digits need {} codewords; picked capacity {}, first large enough {:?}", msg.len(), need, cat::row_of(*size).data, first))
            }
            _ => ctx.count("pick.digits_exact_expectation_ok"),
        }
    }
    match res {
        Err(_) | Ok(Err(_)) => ctx.count("pick.encode_failed(C11/C10)"),
        Ok(Ok((size, dcw))) => {
            let unpadded = crate::refimpl::dec::unpadded_len(&dcw);
            let Some(unpadded) = unpadded else {
                ctx.count("pick.stream_rejected_by_rdec(C02)");
                return;
            };
            let first = order.iter().find(|s| cat::row_of(**s).data >= unpadded);
            if first != Some(&size) {
                ctx.violation("not_first_large_enough", &case(), format!("unpadded length {}, picked {:?}, first large enough in iteration order {:?}", unpadded, size, first));
            } else {
                ctx.count("pick.ok");
                let mut key = spec.as_bytes().to_vec();
                key.extend_from_slice(msg);
                ctx.nontrivial(hash64(&key));
            }
        }
    }
}

/// every way of building a list from explicit sizes gives the same set, iterates in capacity order, and
/// `into_iter` / `iter` / `contains` / `is_empty` / `extend` agree
pub fn eval_construction(ctx: &mut Ctx, a: &[&'static Row], b: &[&'static Row]) {
    ctx.eval();
    let case = || Case::new("cat_construct").with("a", a.iter().map(|r| r.name).collect::<Vec<_>>().join(",")).with("b", b.iter().map(|r| r.name).collect::<Vec<_>>().join(","));
    let sa: Vec<SymbolSize> = a.iter().map(|r| r.size).collect();
    let sb: Vec<SymbolSize> = b.iter().map(|r| r.size).collect();
    let res = guard(|| {
        let l1 = SymbolList::with_whitelist(sa.iter().copied());
        let l2: SymbolList = sa.iter().copied().collect();
        let mut l3 = SymbolList::with_whitelist(Vec::<SymbolSize>::new());
        l3.extend(sa.iter().copied());
        let l4: SymbolList = if sa.len() == 1 { sa[0].into() } else if sa.len() == 3 { [sa[0], sa[1], sa[2]].into() } else { SymbolList::with_whitelist(sa.iter().copied()) };
        let mut l5 = SymbolList::with_whitelist(sa.iter().copied());
        l5.extend(sb.iter().copied());
        let mut l6 = SymbolList::default().enforce_square();
        l6.extend(sb.iter().copied());
        let v = |l: &SymbolList| l.iter().collect::<Vec<SymbolSize>>();
        let into: Vec<SymbolSize> = l1.clone().into_iter().collect();
        (v(&l1), v(&l2), v(&l3), v(&l4), v(&l5), v(&l6), into, l1.is_empty(), l1 == l2, CAT.iter().map(|r| l5.contains(&r.size)).collect::<Vec<bool>>())
    });
    let (v1, v2, v3, v4, v5, v6, into, empty, eq12, contains5) = match res {
        Ok(x) => x,
        Err(p) => return ctx.violation("panic", &case(), p),
    };
    let set_of = |rows: &[&'static Row]| {
        let mut n: Vec<&'static str> = rows.iter().map(|r| r.name).collect();
        n.sort();
        n.dedup();
        n
    };
    let names = |v: &Vec<SymbolSize>| {
        // (whether a size given twice is iterated once or twice is not fixed by the statement: compare as sets)
        let mut n: Vec<&'static str> = v.iter().map(|s| cat::row_of(*s).name).collect();
        n.sort();
        n.dedup();
        n
    };
    let want_a = set_of(a);
    let mut ab: Vec<&'static Row> = a.to_vec();
    ab.extend_from_slice(b);
    let want_ab = set_of(&ab);
    let mut sq: Vec<&'static Row> = CAT.iter().filter(|r| r.iso16022 && r.rows == r.cols).collect();
    sq.extend_from_slice(b);
    let want_sq = set_of(&sq);
    for (nm, v, want) in [("with_whitelist", &v1, &want_a), ("from_iter", &v2, &want_a), ("extend_on_empty", &v3, &want_a), ("from_array_or_size", &v4, &want_a), ("extend", &v5, &want_ab), ("filter_then_extend", &v6, &want_sq)] {
        if &names(v) != want {
            return ctx.violation("list_construction_members", &case(), format!("{}: iterates {} sizes, expected the {} distinct members", nm, v.len(), want.len()));
        }
        if v.len() != want.len() {
            ctx.count("construction.duplicates_iterated(not judged)");
        }
        let caps: Vec<usize> = v.iter().map(|s| cat::row_of(*s).data).collect();
        if caps.windows(2).any(|w| w[0] > w[1]) {
            return ctx.violation("iteration_order", &case(), format!("{}: capacities not non-decreasing: {:?}", nm, caps));
        }
    }
    if into != v1 || empty != a.is_empty() || !eq12 {
        return ctx.violation("list_api_disagreement", &case(), "into_iter / is_empty / == disagree with iter()");
    }
    for (i, r) in CAT.iter().enumerate() {
        if contains5[i] != want_ab.contains(&r.name) {
            return ctx.violation("filter_membership", &case(), format!("contains({}) after extend", r.name));
        }
    }
    // a list grown in place must encode exactly like a list built fresh from the same sizes
    if !ab.is_empty() {
        let maxcap = ab.iter().map(|r| r.data).max().unwrap();
        let mina = a.iter().map(|r| r.data).max().unwrap_or(0);
        for need in [maxcap, mina + 1, (mina + maxcap) / 2 + 1] {
            if need == 0 || need > maxcap {
                continue;
            }
            // `need` lower-case letters cost `need` ASCII codewords at most; use digits to hit the capacity exactly
            let msg: Vec<u8> = (0..2 * need).map(|i| b'0' + (i % 10) as u8).collect();
            let r2 = guard(|| {
                let mut grown = SymbolList::with_whitelist(sa.iter().copied());
                grown.extend(sb.iter().copied());
                let fresh = SymbolList::with_whitelist(sa.iter().copied().chain(sb.iter().copied()));
                let g = DataMatrix::encode(&msg, grown).map(|d| d.size);
                let f = DataMatrix::encode(&msg, fresh).map(|d| d.size);
                (g, f)
            });
            match r2 {
                Err(p) => return ctx.violation("panic", &case(), p),
                Ok((g, f)) => {
                    // compared by capacity: which of several listed symbols of equal capacity wins is list-order business
                    let capof = |r: &Result<SymbolSize, datamatrix::data::DataEncodingError>| r.as_ref().map(|s| cat::row_of(*s).data).map_err(|e| format!("{:?}", e));
                    if capof(&g) != capof(&f) {
                        return ctx.violation("grown_list_encodes_differently", &case(), format!("{} digits: list grown with extend() gives {:?}, the same sizes as a fresh list give {:?}", msg.len(), g, f));
                    }
                    if let Ok(sz) = g {
                        let first = ab.iter().map(|r| r.data).filter(|c| *c >= need).min();
                        if Some(cat::row_of(sz).data) != first {
                            return ctx.violation("not_first_large_enough", &case(), format!("{} digits need {} codewords; picked capacity {}, smallest sufficient {:?}", msg.len(), need, cat::row_of(sz).data, first));
                        }
                    }
                    ctx.count("construction.encode_checked");
                }
            }
        }
    }
    ctx.count("construction.ok");
    ctx.nontrivial(hash64(case().flat().as_bytes()));
}

fn rand_filter(ctx: &mut Ctx) -> Filter {
    let dims = [0usize, 8, 10, 12, 16, 18, 20, 22, 24, 26, 32, 36, 40, 44, 48, 52, 64, 80, 88, 96, 120, 144, 145, 200];
    let mut b = |ctx: &mut Ctx| match ctx.rng.below(5) {
        0 => Bound::Unbounded,
        1 | 2 => Bound::Included(*ctx.rng.pick(&dims) + ctx.rng.below(3) - ctx.rng.below(2).min(1) * 0),
        _ => Bound::Excluded(*ctx.rng.pick(&dims) + ctx.rng.below(2)),
    };
    match ctx.rng.below(6) {
        0 => Filter::Square,
        1 => Filter::Rect,
        2 | 3 => Filter::Width(b(ctx), b(ctx)),
        _ => Filter::Height(b(ctx), b(ctx)),
    }
}

fn rand_whitelist(ctx: &mut Ctx) -> String {
    let n = ctx.rng.range(1, 12);
    (0..n).map(|_| ctx.rng.pick(&CAT).name).collect::<Vec<_>>().join(",")
}

pub fn run(ctx: &mut Ctx) {
    let mut item = 0;
    for r in CAT.iter() {
        if ctx.mine(item) {
            eval_size(ctx, r);
        }
        item += 1;
    }
    if ctx.shard == 0 {
        eval_fixed_lists(ctx);
        eval_filters(ctx, "all", &[Filter::Square]);
        eval_filters(ctx, "all", &[Filter::Rect]);
        eval_filters(ctx, "default", &[Filter::Square]);
        eval_filters(ctx, "default", &[Filter::Rect]);
    }
    // all ranges with bounds in 0..=150, all bound shapes, width and height
    let hi = 150usize;
    for a in 0..=hi {
        if !ctx.mine(a) {
            continue;
        }
        let lows = [Bound::Included(a), Bound::Excluded(a)];
        for lo in lows.iter() {
            for wh in 0..2 {
                let mk = |l: Bound<usize>, h: Bound<usize>| if wh == 0 { Filter::Width(l, h) } else { Filter::Height(l, h) };
                eval_filters(ctx, "all", &[mk(*lo, Bound::Unbounded)]);
                for b in 0..=hi {
                    eval_filters(ctx, "all", &[mk(*lo, Bound::Included(b))]);
                    eval_filters(ctx, "all", &[mk(*lo, Bound::Excluded(b))]);
                }
            }
        }
        for wh in 0..2 {
            let mk = |l: Bound<usize>, h: Bound<usize>| if wh == 0 { Filter::Width(l, h) } else { Filter::Height(l, h) };
            // a used as the upper bound with an unbounded start
            eval_filters(ctx, "all", &[mk(Bound::Unbounded, Bound::Included(a))]);
            eval_filters(ctx, "all", &[mk(Bound::Unbounded, Bound::Excluded(a))]);
        }
    }
    // extreme bounds: the ends of the usize range in every bound shape
    if ctx.shard == 0 {
        let ext = [0usize, 1, usize::MAX - 1, usize::MAX];
        let mk_b = |v: usize| [Bound::Included(v), Bound::Excluded(v)];
        for wh in 0..2 {
            let mk = |l: Bound<usize>, h: Bound<usize>| if wh == 0 { Filter::Width(l, h) } else { Filter::Height(l, h) };
            for a in ext.iter().chain([8usize, 16, 144].iter()) {
                for lo in mk_b(*a) {
                    eval_filters(ctx, "all", &[mk(lo, Bound::Unbounded)]);
                    eval_filters(ctx, "default", &[mk(Bound::Unbounded, lo)]);
                    for b in ext.iter().chain([20usize, 144].iter()) {
                        for hi in mk_b(*b) {
                            eval_filters(ctx, "all", &[mk(lo, hi)]);
                        }
                    }
                }
            }
        }
        ctx.count("extreme_bounds_checked");
    }
    if ctx.shard == 0 {
        eval_filters(ctx, "all", &[Filter::Width(Bound::Unbounded, Bound::Unbounded)]);
        eval_filters(ctx, "all", &[Filter::Height(Bound::Unbounded, Bound::Unbounded)]);
    }
    ctx.exhaustive.insert("48_sizes_x_6_attributes".into(), true);
    ctx.exhaustive.insert("width_height_ranges_bounds_0..=150_all_bound_shapes".into(), true);
    // compositions
    for _ in 0..ctx.budget(200_000, 3_000_000) {
        let base = match ctx.rng.below(4) {
            0 => "default".to_string(),
            1 => "all".to_string(),
            _ => rand_whitelist(ctx),
        };
        let depth = ctx.rng.range(1, 3);
        let chain: Vec<Filter> = (0..depth).map(|_| rand_filter(ctx)).collect();
        eval_filters(ctx, &base, &chain);
    }
    // white-lists: all subsets of size <= 2 (ordered pairs incl. duplicates), then random ones
    let mut idx = 0;
    for a in CAT.iter() {
        for b in CAT.iter() {
            if ctx.mine(idx) {
                eval_filters(ctx, &format!("{},{}", a.name, b.name), &[]);
            }
            idx += 1;
        }
        if ctx.mine(idx) {
            eval_filters(ctx, a.name, &[]);
        }
        idx += 1;
    }
    if ctx.shard == 0 {
        eval_filters(ctx, "empty", &[]);
    }
    ctx.exhaustive.insert("whitelists_of_size_le_2".into(), true);
    for _ in 0..ctx.budget(100_000, 2_000_000) {
        let wl = rand_whitelist(ctx);
        eval_filters(ctx, &wl, &[]);
    }
    for i in 0..ctx.budget(40_000, 1_000_000) {
        let na = if i % 7 == 0 { 0 } else if i % 5 == 0 { 3 } else if i % 3 == 0 { 1 } else { ctx.rng.range(1, 10) };
        let nb = ctx.rng.below(6);
        let a: Vec<&'static Row> = (0..na).map(|_| ctx.rng.pick(&CAT)).collect();
        let b: Vec<&'static Row> = (0..nb).map(|_| ctx.rng.pick(&CAT)).collect();
        eval_construction(ctx, &a, &b);
    }
    // picks at exact capacity: 2 x capacity digits need exactly `capacity` codewords (digit pairs cannot be beaten), so
    // the symbol picked from any list containing that size must have exactly that capacity, and it must not be refused
    for (ri, r) in CAT.iter().enumerate() {
        if !ctx.mine(ri) {
            continue;
        }
        for spec in [r.name.to_string(), "all".to_string(), "default".to_string(), format!("Square10,{}", r.name)] {
            if spec == "default" && !r.iso16022 {
                continue;
            }
            for short in [0usize, 1, 2, 5] {
                let n = 2 * r.data - short;
                let need = (n + 1) / 2;
                let msg: Vec<u8> = (0..n).map(|i| b'0' + ((i * 7 + ri) % 10) as u8).collect();
                let _ = need;
                eval_pick(ctx, &spec, &msg);
            }
        }
    }
    // picks
    for _ in 0..ctx.budget(60_000, 2_000_000) {
        let spec = match ctx.rng.below(4) {
            0 => "default".to_string(),
            1 => "all".to_string(),
            _ => rand_whitelist(ctx),
        };
        let len = if ctx.rng.chance(1, 10) { ctx.rng.below(400) } else { ctx.rng.below(60) };
        let msg: Vec<u8> = (0..len).map(|_| *ctx.rng.pick(b"ABCDEFG0123456789abc *>\r,.\x80")).collect();
        eval_pick(ctx, &spec, &msg);
    }
}

pub fn replay(ctx: &mut Ctx, case: &Case) {
    match case.kind.as_str() {
        "cat_size" => {
            let Some(r) = case.get("size").and_then(cat::by_name) else { return ctx.harness_error("bad size") };
            eval_size(ctx, r);
        }
        "cat_lists" => eval_fixed_lists(ctx),
        "cat_filter" => {
            let chain: Vec<Filter> = case.get("chain").unwrap_or("").split('+').filter(|s| !s.is_empty()).filter_map(Filter::parse).collect();
            eval_filters(ctx, case.get("base").unwrap_or("all"), &chain);
        }
        "cat_construct" => {
            let rows = |k: &str| -> Vec<&'static Row> { case.get(k).unwrap_or("").split(',').filter(|s| !s.is_empty()).filter_map(cat::by_name).collect() };
            eval_construction(ctx, &rows("a"), &rows("b"));
        }
        "cat_pick" => eval_pick(ctx, case.get("list").unwrap_or("default"), &case.get_bytes("msg")),
        _ => ctx.harness_error("unknown case kind"),
    }
}
