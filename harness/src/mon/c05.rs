//! C05 — decoding untrusted input never panics or hangs (panic monitor; run on two builds).
use crate::ctx::{guard, panic_site, Case, Ctx};
use crate::gen::inputs;
use crate::gen::rswords::{add_vanishing, add_virtual_error, add_with_roots, apply, pattern, pattern_with_syndromes, random_root_set, set_all_syndromes, structured_syndromes, valid_codeword};
use crate::json::{hex, J};
use crate::refimpl::cat::{self, Row, CAT};
use crate::refimpl::dec::randomize_255;
use crate::refimpl::gf::{self, Rs};
use crate::refimpl::place::{render, Placement};
use crate::rng::hash64;
use datamatrix::data::{decode_data, decode_str};
use datamatrix::errorcode::decode_error;
use datamatrix::placement::MatrixMap;
use datamatrix::DataMatrix;

/// data codeword stream through both data decoders
pub fn eval_stream(ctx: &mut Ctx, cw: &[u8], tag: &'static str) {
    ctx.eval();
    crate::ctx::trace_case(|| Case::new("dd").bytes("cw", cw).with("api", "decode_data").flat());
    let r1 = guard(|| decode_data(cw).is_ok());
    let r2 = guard(|| decode_str(cw).is_ok());
    for (api, r) in [("decode_data", &r1), ("decode_str", &r2)] {
        if let Err(p) = r {
            ctx.violation(&format!("panic@{}", panic_site(p)), &Case::new("dd").bytes("cw", cw).with("api", api), format!("{} panicked: {}", api, p));
        }
    }
    if r1.is_ok() && r2.is_ok() {
        ctx.count(tag);
        match (r1, r2) {
            (Ok(true), _) | (_, Ok(true)) => ctx.count("outcome.stream_ok"),
            _ => ctx.count("outcome.stream_err"),
        }
        if cw.iter().any(|c| *c >= 230) {
            ctx.nontrivial(hash64(cw));
        }
        ctx.sample(|| J::obj().set("api", J::s("decode_data+decode_str")).set("workload", J::s(tag)).set("codewords", J::s(hex(&cw[..cw.len().min(24)]))));
    }
}

pub fn eval_word(ctx: &mut Ctx, r: &Row, word: &[u8], tag: &'static str) {
    if word.len() != r.total() {
        // the statement covers vectors of the symbol's length only
        return ctx.harness_error(format!("decode_error workload {} built a word of {} codewords for {}", tag, word.len(), r.name));
    }
    ctx.eval();
    crate::ctx::trace_case(|| Case::new("de").with("size", r.name).bytes("word", word).flat());
    let size = r.size;
    let mut w = word.to_vec();
    match guard(|| decode_error(&mut w, size).is_ok()) {
        Err(p) => ctx.violation(&format!("panic@{}", panic_site(&p)), &Case::new("de").with("size", r.name).bytes("word", word), format!("decode_error panicked: {}", p)),
        Ok(ok) => {
            ctx.count(tag);
            ctx.count(if ok { "outcome.word_ok" } else { "outcome.word_err" });
            let mut key = r.name.as_bytes().to_vec();
            key.extend_from_slice(word);
            ctx.nontrivial(hash64(&key));
            ctx.sample(|| J::obj().set("api", J::s("decode_error")).set("size", J::s(r.name)).set("workload", J::s(tag)).set("word_prefix", J::s(hex(&word[..word.len().min(16)]))));
        }
    }
}

fn bits_hex(b: &[bool]) -> String {
    let mut s = String::new();
    for ch in b.chunks(4) {
        let mut v = 0u32;
        for (i, x) in ch.iter().enumerate() {
            if *x {
                v |= 8 >> i;
            }
        }
        s.push(std::char::from_digit(v, 16).unwrap());
    }
    s
}

pub fn eval_pixels(ctx: &mut Ctx, bits: &[bool], width: usize, tag: &'static str) {
    ctx.eval();
    crate::ctx::trace_case(|| Case::new("px").with("width", width).with("len", bits.len()).with("bits", bits_hex(bits)).with("api", "decode").flat());
    let r1 = guard(|| MatrixMap::<bool>::try_from_bits(bits, width).is_ok());
    let r2 = guard(|| DataMatrix::decode(bits, width).is_ok());
    let mut bad = false;
    for (api, r) in [("try_from_bits", &r1), ("DataMatrix::decode", &r2)] {
        if let Err(p) = r {
            bad = true;
            ctx.violation(&format!("panic@{}", panic_site(p)), &Case::new("px").with("width", width).with("len", bits.len()).with("bits", bits_hex(bits)).with("api", api), format!("{} panicked: {}", api, p));
        }
    }
    if !bad {
        ctx.count(tag);
        if r1 == Ok(true) {
            ctx.count("outcome.finder_accepted");
            let mut key = width.to_le_bytes().to_vec();
            key.extend(bits.iter().map(|b| *b as u8));
            ctx.nontrivial(hash64(&key));
        } else {
            ctx.count("outcome.finder_rejected");
        }
        if r2 == Ok(true) {
            ctx.count("outcome.symbol_decoded");
        }
    }
}

/// hostile data stream -> valid parity (R-RS) -> placement (R-PLACE) -> rendering (R-FINDER) -> decode
pub fn eval_symbol_with_stream(ctx: &mut Ctx, r: &Row, stream: &[u8], tag: &'static str) {
    let mut data = stream.to_vec();
    data.resize(r.data, 129);
    let mut cw = data.clone();
    cw.extend(gf::encode_symbol(r, &data));
    let pl = Placement::for_row(r);
    let img = render(r, &pl.fill(&cw));
    eval_pixels(ctx, &img, r.cols, tag);
}

fn ascii_prefix(n: usize) -> Vec<u8> {
    (0..n).map(|i| b'B' + (i % 20) as u8).collect()
}

pub fn run(ctx: &mut Ctx) {
    let thorough = ctx.is_thorough();
    let latches = [230u8, 231, 238, 239, 240];
    // (a) bounded-exhaustive hostile streams
    if ctx.shard == 0 {
        eval_stream(ctx, &[], "a.len_le_2");
    }
    for a in 0..=255u8 {
        if !ctx.mine(a as usize) {
            continue;
        }
        eval_stream(ctx, &[a], "a.len_le_2");
        for b in 0..=255u8 {
            eval_stream(ctx, &[a, b], "a.len_le_2");
            for l in latches {
                eval_stream(ctx, &[l, a, b], "a.latch_a_b");
                // ... at the end of a longer stream (symbol positions matter for Base256 and pads)
                if b % 8 == (a % 8) {
                    let mut s = ascii_prefix(9);
                    s.extend_from_slice(&[l, a, b]);
                    eval_stream(ctx, &s, "a.latch_a_b_embedded");
                }
            }
            // ECI designators
            eval_stream(ctx, &[241, a, b], "a.eci_a_b");
            let third: Vec<u8> = if thorough || (192..=207).contains(&a) && (b < 3 || b > 252) { (0..=255).collect() } else { vec![0, 1, 128, 254, 255] };
            for c in third {
                eval_stream(ctx, &[241, a, b, c], "a.eci_a_b_c");
            }
            if thorough {
                for c in 0..=255u8 {
                    eval_stream(ctx, &[240, a, b, c], "a.edifact_a_b_c");
                    eval_stream(ctx, &[231, a, b, c], "a.base256_a_b_c");
                    if c % 4 == 0 {
                        eval_stream(ctx, &[230, a, b, c], "a.c40_a_b_c");
                        eval_stream(ctx, &[238, a, b, c], "a.x12_a_b_c");
                    }
                }
            } else if b % 16 == 0 {
                for c in [0u8, 1, 31, 124, 127, 128, 254, 255] {
                    eval_stream(ctx, &[240, a, b, c], "a.edifact_a_b_c");
                    eval_stream(ctx, &[231, a, b, c], "a.base256_a_b_c");
                    eval_stream(ctx, &[230, a, b, c], "a.c40_a_b_c");
                }
            }
        }
        // every payload byte under every supported ECI, through ASCII/Upper Shift and through Base256
        for eci in [3u8, 11, 13, 26, 27, 0, 2, 25, 30, 100] {
            let mut s = vec![241, eci + 1];
            if a < 128 {
                s.push(a + 1);
            } else {
                s.extend_from_slice(&[235, a - 127]);
            }
            eval_stream(ctx, &s, "a.eci_payload_ascii");
            let mut s = vec![241, eci + 1, 231];
            s.push(randomize_255(1, 4));
            s.push(randomize_255(a, 5));
            eval_stream(ctx, &s, "a.eci_payload_base256");
        }
    }
    ctx.exhaustive.insert("streams_len_le_2_and_latch_a_b_and_eci_a_b".into(), true);
    if thorough {
        ctx.exhaustive.insert("eci_3byte_edifact_3byte_base256_3byte_all_2^24".into(), true);
    }
    // (b) grammar-aware mutation of valid streams
    let nb = ctx.budget(150_000, 15_000_000);
    for _ in 0..nb {
        let input = inputs::gen_input(&mut ctx.rng, 120);
        let list = crate::util::list_from_spec(&inputs::gen_list_spec(&mut ctx.rng)).unwrap();
        let Ok(Ok((mut cw, _))) = guard(|| datamatrix::data::encode_data(&input, &list, None, datamatrix::EncodationType::all(), true)) else {
            ctx.count("b.seed_encode_failed");
            continue;
        };
        for _ in 0..ctx.rng.range(1, 3) {
            if cw.is_empty() {
                break;
            }
            match ctx.rng.below(7) {
                0 => {
                    let n = ctx.rng.below(cw.len() + 1);
                    cw.truncate(n);
                }
                1 => {
                    let p = ctx.rng.below(cw.len() + 1);
                    cw.insert(p, *ctx.rng.pick(&[230u8, 231, 235, 238, 239, 240, 241, 254, 129, 236, 237, 232, 0, 255]));
                }
                2 => {
                    let p = ctx.rng.below(cw.len());
                    cw[p] = ctx.rng.byte();
                }
                3 => {
                    let p = ctx.rng.below(cw.len());
                    cw[p] = *ctx.rng.pick(&[0u8, 1, 129, 254, 255, 128, 127]);
                }
                4 => {
                    let p = ctx.rng.below(cw.len());
                    let c = cw[p];
                    cw.insert(p, c);
                }
                5 => {
                    let p = ctx.rng.below(cw.len());
                    cw.remove(p);
                }
                _ => {
                    let nx = ctx.rng.below(6);
                    let extra = ctx.rng.bytes(nx);
                    cw.extend(extra);
                }
            }
        }
        eval_stream(ctx, &cw, "b.mutated_valid_stream");
    }
    // length fields that disagree with what is left of the stream, one- and two-codeword forms, long streams
    {
        let mut item = 0usize;
        for total in [3usize, 5, 12, 30, 62, 114, 204, 252, 253, 254, 280, 368, 456, 816, 1304, 1558] {
            for prefix in [0usize, 1, 7] {
                if !ctx.mine(item) {
                    item += 1;
                    continue;
                }
                item += 1;
                if prefix + 3 > total {
                    continue;
                }
                // positions: prefix ASCII codewords, then 231, then the length field, then payload up to `total`
                for two in [false, true] {
                    let hdr = 1 + if two { 2 } else { 1 };
                    if prefix + hdr > total {
                        continue;
                    }
                    let remaining = total - prefix - hdr;
                    for delta in -3i64..=3 {
                        let l = remaining as i64 + delta;
                        if l < 0 {
                            continue;
                        }
                        let l = l as usize;
                        let mut cw = ascii_prefix(prefix);
                        cw.push(231);
                        let start = cw.len();
                        if two {
                            if l < 250 || l > 1555 + 250 {
                                // also feed inconsistent two-byte forms for small lengths
                                cw.push(249 + (l / 250).min(6) as u8);
                                cw.push((l % 250) as u8);
                            } else {
                                cw.push((l / 250 + 249).min(255) as u8);
                                cw.push((l % 250) as u8);
                            }
                        } else {
                            cw.push(l.min(249) as u8);
                        }
                        while cw.len() < total {
                            cw.push((cw.len() * 7 % 251) as u8);
                        }
                        for i in start..cw.len() {
                            cw[i] = randomize_255(cw[i], i + 1);
                        }
                        eval_stream(ctx, &cw, "b.base256_length_vs_remaining");
                        // the same stream inside a complete symbol with valid parity, through DataMatrix::decode
                        if let Some(r) = CAT.iter().find(|r| r.data == total) {
                            if delta.abs() <= 1 {
                                eval_symbol_with_stream(ctx, r, &cw, "d.hostile_stream_valid_parity");
                            }
                        }
                    }
                }
            }
        }
    }
    // random byte streams of various lengths
    for _ in 0..ctx.budget(100_000, 10_000_000) {
        let n = ctx.rng.range(1, 40);
        let s: Vec<u8> = (0..n).map(|_| if ctx.rng.chance(1, 3) { *ctx.rng.pick(&[230u8, 231, 235, 238, 239, 240, 241, 254, 129, 0, 255, 1]) } else { ctx.rng.byte() }).collect();
        eval_stream(ctx, &s, "b.random_stream");
    }
    // (c) decode_error
    for r in CAT.iter() {
        let rs = Rs::new(r.k());
        let (k, t) = (r.k(), r.k() / 2);
        let big = r.total() > 300;
        let n = ctx.budget(if big { 16 * 60 } else { 16 * 400 }, if big { 16 * 6000 } else { 16 * 40_000 });
        for i in 0..n as usize {
            match i % 9 {
                7 => {
                    // all k syndromes of one block prescribed to a structured sequence
                    let mut cw = valid_codeword(&mut ctx.rng, r, &rs, 3);
                    let b = ctx.rng.below(r.blocks);
                    let target = structured_syndromes(&mut ctx.rng, k);
                    set_all_syndromes(r, &mut cw, b, &target);
                    eval_word(ctx, r, &cw, "c.structured_syndromes_all_k");
                }
                8 => {
                    // weight-w pattern (w <= t) with a structured syndrome prefix, optionally plus one more error
                    let cw = valid_codeword(&mut ctx.rng, r, &rs, 3);
                    let b = ctx.rng.below(r.blocks);
                    let w = if ctx.rng.chance(1, 2) { t } else { ctx.rng.range(1, t) };
                    let target = structured_syndromes(&mut ctx.rng, w);
                    if let Some(mut e) = pattern_with_syndromes(&mut ctx.rng, r, b, w, &target) {
                        if ctx.rng.chance(1, 3) {
                            let extra = pattern(&mut ctx.rng, r, &(0..r.blocks).map(|x| if x == b { 1 } else { 0 }).collect::<Vec<_>>());
                            for x in extra {
                                if !e.iter().any(|y| y.0 == x.0) {
                                    e.push(x);
                                }
                            }
                        }
                        let wd = apply(&cw, &e);
                        eval_word(ctx, r, &wd, "c.structured_syndromes_weight_le_t");
                    }
                }
                6 => {
                    // an arbitrary subset of the syndromes vanishes (e.g. all but the first)
                    let mut cw = valid_codeword(&mut ctx.rng, r, &rs, i);
                    let nb = if ctx.rng.chance(1, 2) { 1 } else { r.blocks };
                    for _ in 0..nb {
                        let b = ctx.rng.below(r.blocks);
                        let roots = random_root_set(&mut ctx.rng, k);
                        let qd = ctx.rng.below(2);
                        add_with_roots(&mut ctx.rng, r, &mut cw, b, &roots, qd);
                    }
                    eval_word(ctx, r, &cw, "c.subset_of_syndromes_vanishes");
                }
                0 => {
                    let w = ctx.rng.bytes(r.total());
                    eval_word(ctx, r, &w, "c.noise");
                }
                1 => {
                    let cw = valid_codeword(&mut ctx.rng, r, &rs, 3);
                    let wts: Vec<usize> = (0..r.blocks).map(|_| ctx.rng.range(t + 1, (3 * t).min(r.total() / r.blocks - 1))).collect();
                    let w = apply(&cw, &pattern(&mut ctx.rng, r, &wts));
                    eval_word(ctx, r, &w, "c.weight_t+1..3t");
                }
                2 | 3 => {
                    // j vanishing leading syndromes in one block
                    let mut cw = valid_codeword(&mut ctx.rng, r, &rs, i);
                    let b = ctx.rng.below(r.blocks);
                    let j = (i / 6) % k;
                    let qd = ctx.rng.below(3);
                    add_vanishing(&mut ctx.rng, r, &mut cw, b, j, qd);
                    eval_word(ctx, r, &cw, "c.vanishing_leading_syndromes_one_block");
                }
                4 => {
                    let mut cw = valid_codeword(&mut ctx.rng, r, &rs, 3);
                    let j = (i / 6) % k;
                    for b in 0..r.blocks {
                        add_vanishing(&mut ctx.rng, r, &mut cw, b, j, 1);
                    }
                    eval_word(ctx, r, &cw, "c.vanishing_leading_syndromes_all_blocks");
                }
                _ => {
                    // single / few errors placed at the strided-layout boundaries, incl. last ecc codeword of each block
                    let cw = valid_codeword(&mut ctx.rng, r, &rs, 3);
                    let b = ctx.rng.below(r.blocks);
                    let pos = r.block_positions(b);
                    let nd = r.block_data_len(b);
                    let mut e = vec![(pos[pos.len() - 1], 1 + ctx.rng.below(255) as u8)];
                    if ctx.rng.chance(1, 2) {
                        e.push((pos[nd], 1 + ctx.rng.below(255) as u8));
                    }
                    if ctx.rng.chance(1, 2) {
                        e.push((pos[0], 1 + ctx.rng.below(255) as u8));
                    }
                    e.dedup_by_key(|x| x.0);
                    let w = apply(&cw, &e);
                    eval_word(ctx, r, &w, "c.block_boundary_errors");
                }
            }
        }
    }
    // (c') error locations at and beyond the end of the block: every virtual position n..=254 of every block
    let mut item = 0usize;
    for r in CAT.iter() {
        let rs = Rs::new(r.k());
        for b in 0..r.blocks {
            let n = r.block_positions(b).len();
            for p in n..=254usize {
                if ctx.mine(item) {
                    for variant in 0..3 {
                        let mut cw = valid_codeword(&mut ctx.rng, r, &rs, 3);
                        let e = 1 + ctx.rng.below(255) as u8;
                        add_virtual_error(r, &rs, &mut cw, b, p, e);
                        if variant >= 1 {
                            // plus genuine in-range errors in the same block (still within t in total)
                            let t = r.k() / 2;
                            let extra = if variant == 1 { 1 } else { t.saturating_sub(1).max(1) };
                            let wts: Vec<usize> = (0..r.blocks).map(|x| if x == b { extra.min(t - 1) } else { 0 }).collect();
                            let pat = pattern(&mut ctx.rng, r, &wts);
                            cw = apply(&cw, &pat);
                        }
                        eval_word(ctx, r, &cw, "c.virtual_error_position_ge_n");
                    }
                }
                item += 1;
            }
        }
    }
    ctx.exhaustive.insert("virtual_error_positions_n..=254_every_block_every_size".into(), true);
    // (d) pixels
    for w in 0..=150usize {
        if !ctx.mine(w) {
            continue;
        }
        for len in [0usize, 1, w.saturating_sub(1), w, w + 1, 2 * w, w * w, w * w + 1, 8 * w, 10 * w, 12 * w, 16 * w, 26 * w] {
            let dark = w % 2 == 0;
            eval_pixels(ctx, &vec![dark; len], w, "d.width_len_grid");
        }
    }
    // well-formed symbols with surplus or missing pixels, and dimensions that agree with a symbol's modulo 256
    for (i, r) in CAT.iter().enumerate() {
        if !ctx.mine(i) {
            continue;
        }
        let pl = Placement::for_row(r);
        let img = render(r, &pl.fill(&ctx.rng.bytes(r.total())));
        for extra in [1usize, 2, r.cols / 2, r.cols - 1, r.cols + 1, 2 * r.cols - 1] {
            let mut a = img.clone();
            a.extend((0..extra).map(|k| k % 2 == 0));
            eval_pixels(ctx, &a, r.cols, "d.valid_symbol_with_surplus_pixels");
        }
        for cut in [1usize, 2, r.cols - 1, r.cols, r.cols + 1] {
            let mut a = img.clone();
            a.truncate(img.len() - cut);
            eval_pixels(ctx, &a, r.cols, "d.valid_symbol_truncated");
        }
        for (dw, dh) in [(256usize, 0usize), (0, 256), (256, 256), (512, 0), (65536, 0)] {
            let (w, h) = (r.cols + dw, r.rows + dh);
            if w * h > 3_000_000 {
                continue;
            }
            // the symbol in the top-left corner of a larger canvas, and a plain canvas
            let mut a = vec![false; w * h];
            for y in 0..r.rows {
                for x in 0..r.cols {
                    a[y * w + x] = img[y * r.cols + x];
                }
            }
            eval_pixels(ctx, &a, w, "d.dimensions_congruent_mod_256");
            eval_pixels(ctx, &vec![true; w * h], w, "d.dimensions_congruent_mod_256");
            // same pixel count as the symbol-shaped prefix, read with the wrapped width
            eval_pixels(ctx, &img, w, "d.dimensions_congruent_mod_256");
        }
    }
    for (i, r) in CAT.iter().enumerate() {
        let pl = Placement::for_row(r);
        let n = ctx.budget(16 * 12, 16 * 600);
        for k in 0..n as usize {
            match k % 4 {
                0 => {
                    // valid finder with arbitrary content
                    let map: Vec<bool> = (0..r.map_rows() * r.map_cols()).map(|_| ctx.rng.chance(1, 2)).collect();
                    let mut img = render(r, &map);
                    if r.has_corner_pattern() && ctx.rng.chance(3, 4) {
                        let full = pl.fill(&ctx.rng.bytes(r.total()));
                        img = render(r, &full);
                    }
                    eval_pixels(ctx, &img, r.cols, "d.valid_finder_random_content");
                }
                1 => {
                    let cw = ctx.rng.bytes(r.total());
                    let mut img = render(r, &pl.fill(&cw));
                    let p = ctx.rng.below(img.len());
                    img[p] = !img[p];
                    eval_pixels(ctx, &img, r.cols, "d.single_module_deviation");
                }
                2 => {
                    // hostile data stream behind valid parity
                    let mut s = ascii_prefix(ctx.rng.below(r.data.min(20)));
                    let l = *ctx.rng.pick(&[230u8, 231, 238, 239, 240, 241, 235]);
                    s.push(l);
                    let nt = ctx.rng.below(6);
                    let tail = ctx.rng.bytes(nt);
                    s.extend(tail);
                    s.truncate(r.data);
                    eval_symbol_with_stream(ctx, r, &s, "d.hostile_stream_valid_parity");
                }
                _ => {
                    let img: Vec<bool> = (0..r.rows * r.cols).map(|_| ctx.rng.chance(1, 2)).collect();
                    eval_pixels(ctx, &img, r.cols, "d.random_pixels_catalogue_dims");
                }
            }
        }
        if ctx.mine(i) {
            for (a, b) in [(0u8, 0u8), (0, 1), (255, 255), (254, 254)] {
                for l in [230u8, 238, 239] {
                    eval_symbol_with_stream(ctx, r, &[l, a, b], "d.hostile_stream_valid_parity");
                }
            }
            eval_symbol_with_stream(ctx, r, &[241, 200, 5, 0], "d.hostile_stream_valid_parity");
        }
    }
}

pub fn replay(ctx: &mut Ctx, case: &Case) {
    match case.kind.as_str() {
        "dd" => eval_stream(ctx, &case.get_bytes("cw"), "replay"),
        "de" => {
            let Some(r) = case.get("size").and_then(cat::by_name) else { return ctx.harness_error("bad size") };
            eval_word(ctx, r, &case.get_bytes("word"), "replay");
        }
        "px" => {
            let bits = super::c08::bits_from_str(case.get("bits").unwrap_or(""), case.get_usize("len"));
            eval_pixels(ctx, &bits, case.get_usize("width"), "replay");
        }
        _ => ctx.harness_error("unknown case kind"),
    }
}
