//! C18 — planning agrees with encoding (public API + planner hook).
use super::enc_common::*;
use crate::ctx::{guard, Case, Ctx};
use crate::gen::inputs;
use crate::refimpl::cat;
use crate::refimpl::dec::{self, Mode};
use crate::util::{list_from_spec, mode_bit, modes_from_mask, rows_from_spec};
use datamatrix::EncodationType;

fn to_mode(t: EncodationType) -> Mode {
    match t {
        EncodationType::Ascii => Mode::Ascii,
        EncodationType::C40 => Mode::C40,
        EncodationType::Text => Mode::Text,
        EncodationType::X12 => Mode::X12,
        EncodationType::Edifact => Mode::Edifact,
        EncodationType::Base256 => Mode::Base256,
    }
}

pub fn eval(ctx: &mut Ctx, c: &EncCase, tag: &str) {
    ctx.eval();
    let Some(list) = list_from_spec(&c.list) else { return ctx.harness_error("bad list spec") };
    let case = || c.to_case("plan");
    let (input, mask) = (&c.input, c.mask);
    let _ = datamatrix::verif::take_planner_stats();
    let enc = guard(|| datamatrix::data::encode_data(input, &list, None, modes_from_mask(mask), false));
    let st = datamatrix::verif::take_planner_stats();
    let plan = guard(|| datamatrix::data::encodation_plan(input, &list, modes_from_mask(mask)));
    let plan = match plan {
        Err(_) => return ctx.count("plan.panic(C11)"),
        Ok(p) => p,
    };
    let (cw, size) = match enc {
        Err(_) => return ctx.count("encode.panic(C11)"),
        Ok(Err(_)) => {
            ctx.count("encode.refused");
            if plan.is_some() {
                ctx.count("encode.refused_but_plan_exists");
            }
            return;
        }
        Ok(Ok(x)) => x,
    };
    ctx.count("encode.ok");
    let Some(plan) = plan else {
        return ctx.violation("plan_missing_for_encodable_input", &case(), "encode_data succeeded but encodation_plan returned None");
    };
    let n = c.input.len();
    // structure of the plan
    for (pos, m) in &plan {
        if mask & mode_bit(*m) == 0 {
            return ctx.violation("plan_names_disabled_mode", &case(), format!("{:?}", plan));
        }
        if *pos > n {
            return ctx.violation("plan_position_out_of_range", &case(), format!("{:?}", plan));
        }
    }
    if plan.windows(2).any(|w| w[0].0 < w[1].0) || plan.last().map(|l| l.0) != Some(0) {
        return ctx.violation("plan_positions", &case(), format!("positions must never increase and end at 0: {:?}", plan));
    }
    // non-ASCII modes with at least one character, in order
    let mut assigned: Vec<Mode> = Vec::new();
    for w in plan.windows(2) {
        let chars = w[0].0 - w[1].0;
        let m = to_mode(w[0].1);
        if chars > 0 && m != Mode::Ascii {
            assigned.push(m);
        }
    }
    let d = match dec::decode(&cw) {
        Ok(d) => d,
        Err(_) => return ctx.count("rdec_rejects_stream(C02)"),
    };
    if d.latches != assigned {
        return ctx.violation(
            "latches_differ_from_plan",
            &case(),
            format!("plan {:?} assigns characters to {:?}; output latches {:?}", plan, assigned.iter().map(|m| m.name()).collect::<Vec<_>>(), d.latches.iter().map(|m| m.name()).collect::<Vec<_>>()),
        );
    }
    // the other public entry points (configured builder in any call order, wrappers) promise the same: their
    // output must follow the plan too
    if c.order != 0 || c.prelude != 0 || c.entry != 0 || c.skipdef {
        match do_encode(c, false) {
            EncOut::Ok(e) => match dec::decode(&e.data) {
                Ok(d2) => {
                    if d2.latches != assigned {
                        return ctx.violation("latches_differ_from_plan", &case(), format!("entry point {} / builder order {}: plan assigns characters to {:?}; output latches {:?}", c.effective_entry(), c.order, assigned.iter().map(|m| m.name()).collect::<Vec<_>>(), d2.latches.iter().map(|m| m.name()).collect::<Vec<_>>()));
                    }
                    if cat::row_of(e.size).data != cat::row_of(size).data {
                        return ctx.violation("larger_symbol_than_predicted", &case(), format!("entry point {} / builder order {} used capacity {}, data::encode_data {}", c.effective_entry(), c.order, cat::row_of(e.size).data, cat::row_of(size).data));
                    }
                    ctx.count("entry_points.agree_with_plan");
                }
                Err(_) => ctx.count("rdec_rejects_stream(C02)"),
            },
            EncOut::Err(_) => return ctx.violation("plan_missing_for_encodable_input", &case(), format!("data::encode_data succeeded, entry point {} / builder order {} refused", c.effective_entry(), c.order)),
            EncOut::Panic(_) => ctx.count("encode.panic(C11)"),
            EncOut::BadSpec => {}
        }
    }
    // hook: the symbol the planner predicted for the plan it selected in that very call
    if st.calls >= 1 {
        if let Some(cost) = st.selected_cost_twelfths {
            let predicted_cw = st.written + ((cost as usize) + 11) / 12;
            let rows = rows_from_spec(&c.list);
            let mut caps: Vec<usize> = rows.iter().map(|r| r.data).collect();
            caps.sort();
            let predicted_cap = caps.iter().find(|cap| **cap >= predicted_cw).copied();
            let actual = cat::row_of(size).data;
            match predicted_cap {
                Some(pc) if actual > pc => {
                    return ctx.violation("larger_symbol_than_predicted", &case(), format!("planner predicted {} codewords (symbol capacity {}), encoder needed capacity {}", predicted_cw, pc, actual));
                }
                None => {
                    ctx.count("hook.predicted_no_symbol");
                }
                _ => ctx.count("hook.prediction_checked"),
            }
            ctx.max("max_predicted_codewords", predicted_cw as u64);
        } else {
            ctx.count("hook.no_selected_plan");
        }
    } else {
        // an encoder may legitimately answer without consulting the planner (fast paths): then there is no
        // prediction to hold it to; the coverage floor on hook.prediction_checked keeps this from going unnoticed
        ctx.count("hook.no_planner_call(not judged)");
    }
    ctx.count(&format!("workload.{}", tag));
    ctx.count(&format!("plan_len.{}", plan.len().min(8)));
    tag_stream(ctx, &d, cw.len());
    if !assigned.is_empty() || c.mask != 63 || c.list != "default" {
        ctx.nontrivial(c.key());
    }
    ctx.sample(|| c.describe().set("plan", crate::json::J::s(format!("{:?}", plan))).set("latches", crate::json::J::s(format!("{:?}", d.latches.iter().map(|m| m.name()).collect::<Vec<_>>()))));
}

pub fn run(ctx: &mut Ctx) {
    let small_len = if ctx.is_thorough() { 5 } else { 4 };
    let n_small = inputs::count_small(small_len);
    for i in 0..n_small {
        if !ctx.mine(i) {
            continue;
        }
        let s = inputs::small_string(i, small_len);
        for (m, l) in [(63u8, "default"), (62, "default"), (63, "Square14"), (18, "all")] {
            eval(ctx, &EncCase { input: s.clone(), list: l.into(), mask: m, macros: false, fnc1: false, eci: None, order: 0, prelude: 0, skipdef: false, entry: 0 }, "small_scope_exhaustive");
        }
    }
    let mut item = 0usize;
    for l in 245..=252usize {
        for p in 0..=40usize {
            if !ctx.mine(item) {
                item += 1;
                continue;
            }
            item += 1;
            for t in 0..=8usize {
                let input = inputs::b256_three_part(p, l, t);
                for list in ["default", "Square64", "Square72", "all"] {
                    eval(ctx, &EncCase { input: input.clone(), list: list.into(), mask: 63, macros: false, fnc1: false, eci: None, order: 0, prelude: 0, skipdef: false, entry: 0 }, "base256_boundary_three_part");
                }
            }
        }
    }
    // end-of-data tail family (deterministic): packed-mode runs of every length 0..=42 x every tail of <= 3 characters
    {
        let step = if ctx.is_thorough() { 1 } else { 2 };
        let mut i = ctx.shard * step;
        while i < inputs::tail_family_count() {
            let input = inputs::tail_family_case(i);
            let list = match i % 5 { 0 => "all", _ => "default" };
            let mask = match i % 7 { 0 => 62u8, 1 => 17, _ => 63 };
            eval(ctx, &EncCase { input, list: list.into(), mask, macros: false, fnc1: false, eci: None, order: 0, prelude: 0, skipdef: false, entry: 0 }, "tail_family");
            i += step * ctx.nshards;
        }
    }
    let fam_step = 1;
    let mut i = ctx.shard * fam_step + 1;
    while i < inputs::family_count() {
        let input = inputs::family_case(i);
        eval(ctx, &EncCase { input, list: if i % 4 == 1 { "all".into() } else { "default".into() }, mask: 63, macros: false, fnc1: false, eci: None, order: 0, prelude: 0, skipdef: false, entry: 0 }, "three_part_family");
        i += fam_step * ctx.nshards;
    }
    let n = ctx.budget(250_000, 25_000_000);
    for i in 0..n {
        let mut c = gen_case(&mut ctx.rng, 3116);
        c.macros = false;
        c.fnc1 = false;
        c.eci = None;
        if i % 3 == 0 {
            // single-size lists: a mismatch becomes a spurious refusal or a panic
            c.list = ctx.rng.pick(&cat::CAT).name.to_string();
        }
        eval(ctx, &c, "generated");
    }
}

pub fn replay(ctx: &mut Ctx, case: &Case) {
    eval(ctx, &EncCase::from_case(case), "replay");
}
