//! C16 — Macro 05/06 compaction and GS1 start are exact and lossless.
use super::enc_common::*;
use crate::ctx::{guard, Case, Ctx};
use crate::gen::inputs::{self, MACRO05, MACRO06, TRAIL};
use crate::refimpl::dec;

pub fn eval(ctx: &mut Ctx, c: &EncCase, tag: &str) {
    ctx.eval();
    let e = match do_encode(c, false) {
        EncOut::Ok(e) => e,
        EncOut::Err(_) => return ctx.count("encode.refused"),
        EncOut::Panic(_) => return ctx.count("encode.panic(C11)"),
        EncOut::BadSpec => return ctx.harness_error("bad list spec"),
    };
    ctx.count("encode.ok");
    let case = || c.to_case("macro");
    let x = &c.input;
    let hdr05 = x.starts_with(MACRO05);
    let hdr06 = x.starts_with(MACRO06);
    // header and trailer must not overlap: 7 + 2 bytes
    let envelope = (hdr05 || hdr06) && x.len() >= 9 && x.ends_with(TRAIL);
    let should = c.macros && !c.fnc1 && envelope;
    let first = e.data.first().copied();
    let is_macro = matches!(first, Some(236) | Some(237));
    if should != is_macro {
        return ctx.violation("compaction_iff", &case(), format!("macros={} fnc1={} header={} trailer={} => compaction expected {}, first codeword {:?}", c.macros, c.fnc1, hdr05 || hdr06, x.ends_with(TRAIL), should, first));
    }
    if should && first != Some(if hdr05 { 236 } else { 237 }) {
        return ctx.violation("wrong_macro_codeword", &case(), format!("first codeword {:?}", first));
    }
    if c.fnc1 && first != Some(232) {
        return ctx.violation("fnc1_not_first", &case(), format!("first codeword {:?}", first));
    }
    // anywhere else in the stream a macro codeword is illegal; R-DEC would reject it
    match dec::decode(&e.data) {
        Err(msg) => return ctx.violation("stream_rejected_by_reference_decoder", &case(), msg),
        Ok(d) => {
            if should {
                let body = &x[7..x.len() - 2];
                if d.body != body {
                    return ctx.violation("macro_body_differs", &case(), format!("body read by the reference decoder has {} bytes, input body {}", d.body.len(), body.len()));
                }
                ctx.count(if hdr05 { "compacted.05" } else { "compacted.06" });
                ctx.count(&format!("body_len.{}", body.len().min(20)));
            } else if d.bytes != *x {
                return ctx.violation("verbatim_differs", &case(), "reference decoder reads different bytes");
            }
            if d.fnc1_start != c.fnc1 {
                return ctx.violation("fnc1_header", &case(), "FNC1 start mismatch");
            }
        }
    }
    match guard(|| datamatrix::data::decode_data(&e.data)) {
        Err(p) => return ctx.violation("decode_panic", &case(), p),
        Ok(Err(err)) => return ctx.violation("decode_error", &case(), format!("{:?}", err)),
        Ok(Ok(out)) => {
            if out != *x {
                return ctx.violation("decoded_bytes_differ", &case(), format!("decode_data returns {} bytes, input {}", out.len(), x.len()));
            }
        }
    }
    // the same symbol read as text: header and trailer are re-created, the body is ISO-8859-1 (no ECI was written)
    if should {
        let body = &x[7..x.len() - 2];
        if body.iter().all(|b| crate::refimpl::charset::latin1_printable_char(*b as char)) {
            let want: String = x.iter().map(|b| *b as char).collect();
            match guard(|| datamatrix::data::decode_str(&e.data)) {
                Err(p) => return ctx.violation("decode_panic", &case(), p),
                Ok(Err(err)) => return ctx.violation("decode_error", &case(), format!("decode_str on the compacted symbol: {:?}", err)),
                Ok(Ok(out)) => {
                    if out != want {
                        return ctx.violation("decoded_bytes_differ", &case(), format!("decode_str returns {:?}..., expected the ISO-8859-1 reading of the input", out.chars().take(24).collect::<String>()));
                    }
                    ctx.count("compacted.read_as_text_ok");
                }
            }
        }
    }
    ctx.count(&format!("workload.{}", tag));
    if (hdr05 || hdr06) && !envelope {
        ctx.count("near_miss.header_without_trailer");
    }
    if !(hdr05 || hdr06) && x.ends_with(TRAIL) {
        ctx.count("near_miss.trailer_only");
    }
    if c.fnc1 {
        ctx.count("fnc1_start");
        if envelope {
            ctx.count("fnc1_with_envelope");
        }
    }
    if !c.macros && envelope {
        ctx.count("envelope_macros_off");
    }
    if hdr05 || hdr06 || x.ends_with(TRAIL) || c.fnc1 {
        ctx.nontrivial(c.key());
    }
    ctx.sample(|| c.describe().set("compacted", crate::json::J::Bool(is_macro)));
}

/// the same rules observed through the string entry points: `encode_str` of an (ASCII) message, `decode_str` back
pub fn eval_str(ctx: &mut Ctx, c: &EncCase, tag: &str) {
    let Ok(s) = std::str::from_utf8(&c.input) else { return };
    ctx.eval();
    let case = || c.to_case("macro_str");
    crate::ctx::trace_case(|| case().flat());
    let Some(b) = builder(c) else { return ctx.harness_error("bad list spec") };
    let data = match guard(|| b.encode_str(s).map(|dm| dm.data_codewords().to_vec())) {
        Ok(Ok(d)) => d,
        Ok(Err(_)) => return ctx.count("encode.refused"),
        Err(_) => return ctx.count("encode.panic(C11)"),
    };
    let x = &c.input;
    let (hdr05, hdr06) = (x.starts_with(MACRO05), x.starts_with(MACRO06));
    let envelope = (hdr05 || hdr06) && x.len() >= 9 && x.ends_with(TRAIL);
    let should = c.macros && !c.fnc1 && envelope;
    let first = data.first().copied();
    if should != matches!(first, Some(236) | Some(237)) {
        return ctx.violation("compaction_iff", &case(), format!("encode_str: macros={} fnc1={} envelope={} => compaction expected {}, first codeword {:?}", c.macros, c.fnc1, envelope, should, first));
    }
    if should && first != Some(if hdr05 { 236 } else { 237 }) {
        return ctx.violation("wrong_macro_codeword", &case(), format!("encode_str: first codeword {:?}", first));
    }
    if c.fnc1 && first != Some(232) {
        return ctx.violation("fnc1_not_first", &case(), format!("encode_str: first codeword {:?}", first));
    }
    match guard(|| datamatrix::data::decode_str(&data)) {
        Err(p) => return ctx.violation("decode_panic", &case(), p),
        Ok(Err(err)) => return ctx.violation("decode_error", &case(), format!("decode_str: {:?}", err)),
        Ok(Ok(out)) => {
            if out != s {
                return ctx.violation("decoded_bytes_differ", &case(), format!("decode_str returns {} bytes, input {}", out.len(), s.len()));
            }
        }
    }
    ctx.count(&format!("workload.{}", tag));
    if should {
        ctx.count("str.compacted");
    }
    if hdr05 || hdr06 || x.ends_with(TRAIL) || c.fnc1 {
        ctx.nontrivial(crate::rng::hash64(case().flat().as_bytes()));
    }
}

pub fn run(ctx: &mut Ctx) {
    // envelopes at the capacity limit: the re-created header and trailer make the decoded message longer than any
    // symbol's own capacity in characters; and envelopes with upper-half Latin-1 bodies (read back as bytes and text)
    {
        let mut k = 0usize;
        for head in [MACRO05, MACRO06] {
            for blen in [2000usize, 3090, 3100, 3107, 3108, 3109, 3110, 3111, 3112, 3113, 3114] {
                for list in ["default", "Square144", "all"] {
                    if ctx.mine(k) {
                        let body: Vec<u8> = (0..blen).map(|i| b'0' + ((i * 3 + k) % 10) as u8).collect();
                        let input = [head, &body[..], TRAIL].concat();
                        eval(ctx, &EncCase { input, list: list.into(), mask: 63, macros: true, fnc1: false, eci: None, order: 0, prelude: 0, skipdef: false, entry: (k % 3) as u8 }, "envelopes_at_the_capacity_limit");
                    }
                    k += 1;
                }
            }
            for body in [&b"Gr\xfc\xdfe"[..], b"12\xa3", b"\xc3\xa9", b"1PABC Q\xc2\xb5m", b"\xa0\xff", b"\xe9\xe9\xe9\xe9\xe9\xe9\xe9\xe9\xe9\xe9"] {
                for macros in [true, false] {
                    if ctx.mine(k) {
                        let input = [head, body, TRAIL].concat();
                        eval(ctx, &EncCase { input, list: "default".into(), mask: 63, macros, fnc1: false, eci: None, order: 0, prelude: 0, skipdef: false, entry: (k % 3) as u8 }, "envelopes_with_latin1_bodies");
                    }
                    k += 1;
                }
            }
        }
    }
    // exhaustive: all strings of length 0..=L over pieces {head05, head06, trail, RS, EOT, 'A', '1'} glued as tokens
    let toks: [&[u8]; 8] = [MACRO05, MACRO06, TRAIL, b"\x1e", b"\x04", b"A", b"1", b"[)>"];
    let depth = if ctx.is_thorough() { 5 } else { 4 };
    let mut item = 0usize;
    let total = (0..=depth).map(|d| toks.len().pow(d as u32)).sum::<usize>();
    for idx in 0..total {
        // decode idx into a token sequence
        let mut rem = idx;
        let mut len = 0;
        let mut block = 1;
        while rem >= block {
            rem -= block;
            block *= toks.len();
            len += 1;
        }
        let mut seq = vec![0usize; len];
        for i in (0..len).rev() {
            seq[i] = rem % toks.len();
            rem /= toks.len();
        }
        let input: Vec<u8> = seq.iter().flat_map(|t| toks[*t].iter().copied()).collect();
        for (macros, fnc1) in [(true, false), (false, false), (true, true), (false, true)] {
            if ctx.mine(item) {
                let c = EncCase { input: input.clone(), list: "default".into(), mask: 63, macros, fnc1, eci: None, order: 0, prelude: 0, skipdef: false, entry: 0 };
                eval(ctx, &c, "token_sequences_exhaustive");
                if idx % 3 == 0 {
                    eval_str(ctx, &c, "token_sequences_through_string_api");
                }
            }
            item += 1;
        }
    }
    ctx.exhaustive.insert(format!("token_sequences_depth_le_{}_x_macro_x_fnc1", depth), true);
    // every truncation of a well-formed message
    for head in [MACRO05, MACRO06] {
        let mut full = head.to_vec();
        full.extend_from_slice(b"AB12cd");
        full.extend_from_slice(TRAIL);
        for cut in 0..=full.len() {
            for start in 0..=1 {
                if start <= cut && ctx.mine(item) {
                    for mask in [63u8, 62, 32, 2] {
                        eval(ctx, &EncCase { input: full[start..cut].to_vec(), list: "default".into(), mask, macros: true, fnc1: false, eci: None, order: 0, prelude: 0, skipdef: false, entry: 0 }, "truncations");
                    }
                }
                item += 1;
            }
        }
    }
    // near misses: every byte of the header and of the trailer of a well-formed message replaced by every value
    for head in [MACRO05, MACRO06] {
        let full = [head, &b"Q7"[..], TRAIL].concat();
        for posn in (0..7).chain(full.len() - 2..full.len()) {
            if !ctx.mine(item) {
                item += 1;
                continue;
            }
            item += 1;
            for v in 0..=255u8 {
                let mut m = full.clone();
                m[posn] = v;
                eval(ctx, &EncCase { input: m, list: "default".into(), mask: 63, macros: true, fnc1: false, eci: None, order: 0, prelude: 0, skipdef: false, entry: 0 }, "near_miss_one_byte_replaced");
            }
        }
        // nested envelopes and bodies that themselves look like pieces of an envelope
        for inner in [MACRO05, MACRO06] {
            for body in [&b""[..], b"A", b"12", b"\x1e\x04", b"\x1e", b"\x04"] {
                if ctx.mine(item) {
                    let nested = [head, inner, body, TRAIL, TRAIL].concat();
                    let half = [head, inner, body, TRAIL].concat();
                    let tr2 = [head, body, TRAIL, TRAIL].concat();
                    for m in [nested, half, tr2] {
                        for mask in [63u8, 62, 3, 33] {
                            eval(ctx, &EncCase { input: m.clone(), list: "default".into(), mask, macros: true, fnc1: false, eci: None, order: 0, prelude: 0, skipdef: false, entry: 0 }, "nested_envelopes");
                        }
                    }
                }
                item += 1;
            }
        }
    }
    ctx.exhaustive.insert("every_header_and_trailer_byte_x_256_values".into(), true);
    // builder histories: noise calls before the real ones, defaults left implicit, every order of the real calls
    {
        let msgs: Vec<Vec<u8>> = vec![[MACRO05, &b"AB12"[..], TRAIL].concat(), [MACRO06, &b"x"[..], TRAIL].concat(), [MACRO05, &b"AB12"[..]].concat(), b"AB12".to_vec()];
        for (mi, m) in msgs.iter().enumerate() {
            for prelude in 0..16u8 {
                for order in 0..24u8 {
                    if !ctx.mine(item) {
                        item += 1;
                        continue;
                    }
                    item += 1;
                    for (macros, fnc1) in [(true, false), (false, false), (true, true), (false, true)] {
                        for skipdef in [false, true] {
                            let mask = if mi % 2 == 0 { 63 } else { 35 };
                            eval(ctx, &EncCase { input: m.clone(), list: if order % 2 == 0 { "default".into() } else { "all".into() }, mask, macros, fnc1, eci: None, order, prelude, skipdef, entry: 0 }, "builder_histories");
                        }
                    }
                }
            }
        }
        ctx.exhaustive.insert("builder_histories_16_preludes_x_24_orders_x_4_option_pairs_x_skipdef".into(), true);
    }
    let n = ctx.budget(400_000, 20_000_000);
    for i in 0..n {
        let input = if i % 4 == 3 { inputs::gen_input(&mut ctx.rng, 200) } else { inputs::macro_material(&mut ctx.rng, 60) };
        let (list, mask) = if ctx.rng.chance(1, 2) { ("default".to_string(), 63) } else { (inputs::gen_list_spec(&mut ctx.rng), inputs::gen_mask(&mut ctx.rng)) };
        let c = EncCase { input, list, mask, macros: !ctx.rng.chance(1, 4), fnc1: ctx.rng.chance(1, 5), eci: None, order: ctx.rng.below(24) as u8, prelude: if ctx.rng.chance(1, 2) { 0 } else { ctx.rng.below(16) as u8 }, skipdef: ctx.rng.chance(1, 3), entry: 0 };
        let mut c = c;
        if ctx.rng.chance(1, 3) {
            c.entry = ctx.rng.range(1, 2) as u8;
            c.entry = c.effective_entry();
        }
        eval(ctx, &c, "generated");
        if c.input.is_ascii() && ctx.rng.chance(1, 3) {
            let mut cs = c.clone();
            cs.entry = 0;
            eval_str(ctx, &cs, "generated_through_string_api");
        }
    }
}

pub fn replay(ctx: &mut Ctx, case: &Case) {
    if case.kind == "macro_str" {
        return eval_str(ctx, &EncCase::from_case(case), "replay");
    }
    eval(ctx, &EncCase::from_case(case), "replay");
}
