//! C08 — finder/alignment rendering and strict bitmap parsing are mutual inverses.
use crate::ctx::{guard, Case, Ctx};
use crate::json::J;
use crate::refimpl::cat::{self, Row, CAT};
use crate::refimpl::place::{parse, render, symbol_pos, Placement};
use crate::rng::hash64;
use datamatrix::placement::{BitmapConversionError, MatrixMap};

fn bits_str(b: &[bool]) -> String {
    // pack 4 bits per hex digit
    let mut s = String::with_capacity(b.len() / 4 + 1);
    for ch in b.chunks(4) {
        let mut v = 0u8;
        for (i, x) in ch.iter().enumerate() {
            if *x {
                v |= 8 >> i;
            }
        }
        s.push(std::char::from_digit(v as u32, 16).unwrap());
    }
    s
}

pub fn bits_from_str(s: &str, len: usize) -> Vec<bool> {
    let mut out = Vec::with_capacity(len);
    for c in s.chars() {
        let v = c.to_digit(16).unwrap_or(0) as u8;
        for i in 0..4 {
            if out.len() < len {
                out.push(v & (8 >> i) != 0);
            }
        }
    }
    out.resize(len, false);
    out
}

/// forward direction for a codeword vector
pub fn eval_forward(ctx: &mut Ctx, r: &Row, pl: &Placement, v: &[u8], tag: &str) {
    ctx.eval();
    let size = r.size;
    let case = || Case::new("finder_fwd").with("size", r.name).bytes("cw", v);
    let res = guard(|| {
        let m = MatrixMap::new_with_codewords(v, size);
        let bm = m.bitmap();
        let back = MatrixMap::<bool>::try_from_bits(bm.bits(), bm.width());
        let same = match &back {
            Ok((m2, s2)) => Some((*m2 == m, *s2 == size)),
            Err(_) => None,
        };
        (bm.width(), bm.bits().to_vec(), same, back.err())
    });
    match res {
        Err(p) => ctx.violation("panic", &case(), p),
        Ok((width, bits, same, err)) => {
            let want = render(r, &pl.fill(v));
            if width != r.cols || bits != want {
                let d = bits.iter().zip(&want).position(|(a, b)| a != b).map(|i| (i / r.cols, i % r.cols));
                ctx.violation("rendering_differs", &case(), format!("first differing module (row,col) {:?}", d));
            } else {
                match same {
                    None => ctx.violation("own_rendering_rejected", &case(), format!("{:?}", err)),
                    Some((false, _)) => ctx.violation("parse_content_differs", &case(), "try_from_bits(bitmap) returned different content"),
                    Some((_, false)) => ctx.violation("parse_size_differs", &case(), "try_from_bits(bitmap) returned a different size"),
                    Some((true, true)) => {
                        ctx.count(&format!("fwd.{}", tag));
                        let mut key = b"f".to_vec();
                        key.extend_from_slice(r.name.as_bytes());
                        key.extend_from_slice(v);
                        ctx.nontrivial(hash64(&key));
                    }
                }
            }
        }
    }
}

/// what the standard says about an arbitrary array
enum Expect {
    ZeroWidth,
    DataSize,
    SymbolSize,
    /// dims match `row`; accepted iff finder is exact and (if present) the corner pattern is exact
    Dims(&'static Row, bool),
}

fn expect(bits: &[bool], width: usize) -> Expect {
    if width == 0 {
        return Expect::ZeroWidth;
    }
    if bits.len() % width != 0 {
        return Expect::DataSize;
    }
    let h = bits.len() / width;
    match CAT.iter().find(|r| r.cols == width && r.rows == h) {
        None => Expect::SymbolSize,
        Some(r) => {
            let ok = match parse(r, bits) {
                None => false,
                Some(map) => {
                    if r.has_corner_pattern() {
                        let (h, w) = (r.map_rows(), r.map_cols());
                        map[(h - 2) * w + w - 2] && map[(h - 1) * w + w - 1] && !map[(h - 2) * w + w - 1] && !map[(h - 1) * w + w - 2]
                    } else {
                        true
                    }
                }
            };
            Expect::Dims(r, ok)
        }
    }
}

/// converse direction for an arbitrary array
pub fn eval_array(ctx: &mut Ctx, bits: &[bool], width: usize, tag: &str) {
    ctx.eval();
    let case = || Case::new("finder_arr").with("width", width).with("len", bits.len()).with("bits", bits_str(bits));
    let res = guard(|| match MatrixMap::<bool>::try_from_bits(bits, width) {
        Ok((m, s)) => {
            let bm = m.bitmap();
            Ok((s, bm.width(), bm.bits().to_vec()))
        }
        Err(e) => Err(e),
    });
    let res = match res {
        Ok(r) => r,
        Err(p) => return ctx.violation("panic", &case(), p),
    };
    let exp = expect(bits, width);
    match (&res, &exp) {
        (Err(BitmapConversionError::ZeroWidth), Expect::ZeroWidth) => ctx.count("arr.zero_width_rejected"),
        (Err(BitmapConversionError::DataSize), Expect::DataSize) => ctx.count("arr.data_size_rejected"),
        (Err(BitmapConversionError::SymbolSize), Expect::SymbolSize) => ctx.count("arr.symbol_size_rejected"),
        (other, Expect::ZeroWidth) => return ctx.violation("zero_width_not_reported", &case(), format!("{:?}", other.as_ref().map(|x| x.0))),
        (other, Expect::DataSize) => return ctx.violation("data_size_not_reported", &case(), format!("{:?}", other.as_ref().map(|x| x.0))),
        (other, Expect::SymbolSize) => return ctx.violation("symbol_size_not_reported", &case(), format!("{:?}", other.as_ref().map(|x| x.0))),
        (Ok((s, w, re)), Expect::Dims(r, ok)) => {
            if *w != width || re != bits {
                return ctx.violation("accepted_but_rerender_differs", &case(), "re-rendering the parsed content does not reproduce the array");
            }
            if !ok {
                return ctx.violation("accepted_non_rendering", &case(), "array is not a valid rendering by R-FINDER but was accepted");
            }
            if *s != r.size {
                return ctx.violation("wrong_size_detected", &case(), format!("{:?} for {}", s, r.name));
            }
            ctx.count("arr.accepted");
        }
        (Err(e), Expect::Dims(_, ok)) => {
            if *ok {
                return ctx.violation("valid_rendering_rejected", &case(), format!("{:?}", e));
            }
            ctx.count(&format!("arr.rejected.{:?}", e));
            ctx.count("arr.rejected_invalid_rendering");
        }
    }
    ctx.count(&format!("arr.{}", tag));
    let mut key = width.to_le_bytes().to_vec();
    key.extend(bits.iter().map(|b| *b as u8));
    ctx.nontrivial(hash64(&key));
    ctx.sample(|| J::obj().set("workload", J::s(tag)).set("width", J::i(width)).set("len", J::i(bits.len())).set("crate_result", J::s(match &res { Ok((s, _, _)) => format!("Ok({:?})", s), Err(e) => format!("Err({:?})", e) })));
}

/// arrays over a Bit type with more than two values: a third value in any finder / clock / alignment /
/// fixed-corner module must be rejected (re-rendering could not reproduce it); in a data module it is content
pub fn eval_array_tag(ctx: &mut Ctx, r: &Row, tags: &[super::c07::Tag], tag: &str) {
    use super::c07::Tag;
    use datamatrix::placement::Bit;
    ctx.eval();
    let width = r.cols;
    let case = || Case::new("finder_tag").with("size", r.name).with("tags", tags.iter().map(|t| if *t == Tag::LOW { "0".to_string() } else if *t == Tag::HIGH { "1".to_string() } else { format!("x{}", t.0) }).collect::<Vec<_>>().join(""));
    let n_map = r.map_rows() * r.map_cols();
    let mut is_data = vec![false; tags.len()];
    for i in 0..n_map {
        is_data[symbol_pos(r, i)] = true;
    }
    if r.has_corner_pattern() {
        let (h, w) = (r.map_rows(), r.map_cols());
        for i in [(h - 2) * w + w - 2, (h - 2) * w + w - 1, (h - 1) * w + w - 2, (h - 1) * w + w - 1] {
            is_data[symbol_pos(r, i)] = false;
        }
    }
    let bits: Vec<bool> = tags.iter().map(|t| *t == Tag::HIGH).collect();
    let structure_binary = tags.iter().zip(&is_data).all(|(t, d)| *d || *t == Tag::LOW || *t == Tag::HIGH);
    let want_ok = structure_binary && matches!(expect(&bits, width), Expect::Dims(_, true));
    let res = guard(|| match MatrixMap::<Tag>::try_from_bits(tags, width) {
        Ok((m, s)) => {
            let bm = m.bitmap();
            Ok((s, bm.width(), bm.bits().to_vec()))
        }
        Err(e) => Err(e),
    });
    match res {
        Err(p) => ctx.violation("panic", &case(), p),
        Ok(Ok((s, w, re))) => {
            if w != width || re != tags {
                ctx.violation("accepted_but_rerender_differs", &case(), "re-rendering the parsed content does not reproduce the (multi-valued) array");
            } else if !want_ok {
                ctx.violation("accepted_non_rendering", &case(), "array with a non-binary or wrong structural module was accepted");
            } else if s != r.size {
                ctx.violation("wrong_size_detected", &case(), format!("{:?}", s));
            } else {
                ctx.count("tag.accepted");
                ctx.count(&format!("arr.{}", tag));
            }
        }
        Ok(Err(e)) => {
            if want_ok {
                ctx.violation("valid_rendering_rejected", &case(), format!("{:?}", e));
            } else {
                ctx.count("tag.rejected");
                ctx.count(&format!("arr.{}", tag));
            }
        }
    }
}

/// whole-line deviations: a complete row / column inverted, rotated by one module, or exchanged with its neighbour
pub fn structured_deviations(ctx: &mut Ctx, r: &Row, base: &[bool]) {
    let (rows, cols) = (r.rows, r.cols);
    for y in 0..rows {
        let mut a = base.to_vec();
        for x in 0..cols {
            a[y * cols + x] = !a[y * cols + x];
        }
        eval_array(ctx, &a, cols, "row_inverted");
        let mut a = base.to_vec();
        a[y * cols..(y + 1) * cols].rotate_left(1);
        eval_array(ctx, &a, cols, "row_rotated");
        if y + 1 < rows {
            let mut a = base.to_vec();
            for x in 0..cols {
                a.swap(y * cols + x, (y + 1) * cols + x);
            }
            eval_array(ctx, &a, cols, "rows_swapped");
        }
    }
    for x in 0..cols {
        let mut a = base.to_vec();
        for y in 0..rows {
            a[y * cols + x] = !a[y * cols + x];
        }
        eval_array(ctx, &a, cols, "column_inverted");
        let mut a = base.to_vec();
        let first = a[x];
        for y in 0..rows - 1 {
            a[y * cols + x] = a[(y + 1) * cols + x];
        }
        a[(rows - 1) * cols + x] = first;
        eval_array(ctx, &a, cols, "column_rotated");
        if x + 1 < cols {
            let mut a = base.to_vec();
            for y in 0..rows {
                a.swap(y * cols + x, y * cols + x + 1);
            }
            eval_array(ctx, &a, cols, "columns_swapped");
        }
    }
    // all modules inverted, and the region-local pieces: each half / stripe of every clock row inverted
    let a: Vec<bool> = base.iter().map(|b| !*b).collect();
    eval_array(ctx, &a, cols, "all_inverted");
    let seg = r.reg_cols() + 2;
    for y in 0..rows {
        for s0 in (0..cols).step_by(seg) {
            let mut a = base.to_vec();
            for x in s0..(s0 + seg).min(cols) {
                a[y * cols + x] = !a[y * cols + x];
            }
            eval_array(ctx, &a, cols, "row_segment_inverted");
        }
    }
}

pub fn run(ctx: &mut Ctx) {
    let thorough = ctx.is_thorough();
    let mut item = 0usize;
    let mut all_dev = true;
    for r in CAT.iter() {
        let pl = Placement::for_row(r);
        let mut vecs: Vec<(&str, Vec<u8>)> = vec![("zero", vec![0; r.total()]), ("ones", vec![0xFF; r.total()]), ("checker", (0..r.total()).map(|i| if i % 2 == 0 { 0xAA } else { 0x55 }).collect())];
        for _ in 0..ctx.budget(16 * 40, 16 * 400) {
            vecs.push(("random", ctx.rng.bytes(r.total())));
        }
        for (i, (tag, v)) in vecs.iter().enumerate() {
            if i >= 3 || ctx.mine(item) {
                eval_forward(ctx, r, &pl, v, tag);
            }
            if i < 3 {
                item += 1;
            }
        }
        // every single-module deviation of a valid rendering
        let base_cw = ctx.rng.bytes(r.total());
        // NB: base must be identical across shards: derive from a per-size rng
        let mut srng = crate::rng::Rng::new(ctx.seed, "c08-base", r.rows as u64 * 1000 + r.cols as u64);
        let base_cw = if true { srng.bytes(r.total()) } else { base_cw };
        let base = render(r, &pl.fill(&base_cw));
        let n = base.len();
        let complete = thorough || n <= 144 * 144;
        all_dev &= complete;
        let step = if complete { 1 } else { 23 };
        let mut i = 0;
        while i < n {
            if ctx.mine(item) {
                let mut a = base.clone();
                a[i] = !a[i];
                eval_array(ctx, &a, r.cols, "single_module_deviation");
            }
            item += 1;
            i += step;
        }
        // double deviations, random arrays of this dimension, valid finder + random content
        for k in 0..ctx.budget(16 * 200, 16 * 2000) {
            let mut a = base.clone();
            match k % 4 {
                0 => {
                    for _ in 0..2 {
                        let p = ctx.rng.below(n);
                        a[p] = !a[p];
                    }
                    eval_array(ctx, &a, r.cols, "double_deviation");
                }
                1 => {
                    let a: Vec<bool> = (0..n).map(|_| ctx.rng.chance(1, 2)).collect();
                    eval_array(ctx, &a, r.cols, "random_array_catalogue_dims");
                }
                2 => {
                    // valid finder, arbitrary content in every data module incl. the corner cells
                    let map: Vec<bool> = (0..r.map_rows() * r.map_cols()).map(|_| ctx.rng.chance(1, 2)).collect();
                    let a = render(r, &map);
                    eval_array(ctx, &a, r.cols, "valid_finder_random_content");
                }
                _ => {
                    // deviation in a finder module specifically
                    let finder: Vec<usize> = {
                        let data: std::collections::HashSet<usize> = (0..r.map_rows() * r.map_cols()).map(|i| symbol_pos(r, i)).collect();
                        (0..n).filter(|p| !data.contains(p)).collect()
                    };
                    let p = *ctx.rng.pick(&finder);
                    a[p] = !a[p];
                    eval_array(ctx, &a, r.cols, "finder_module_deviation");
                }
            }
        }
        if ctx.mine(item) && r.has_corner_pattern() {
            // every subset of the four fixed-corner modules flipped
            let (h, w) = (r.map_rows(), r.map_cols());
            let cells = [(h - 2) * w + w - 2, (h - 2) * w + w - 1, (h - 1) * w + w - 2, (h - 1) * w + w - 1];
            for maskbits in 1..16u8 {
                let mut a = base.clone();
                for (k, c) in cells.iter().enumerate() {
                    if maskbits & (1 << k) != 0 {
                        let p = symbol_pos(r, *c);
                        a[p] = !a[p];
                    }
                }
                eval_array(ctx, &a, r.cols, "corner_pattern_subsets");
            }
        }
        if ctx.mine(item) {
            structured_deviations(ctx, r, &base);
            // three-valued module type: every single structural or data module replaced by a third value (sampled for big symbols)
            use super::c07::Tag;
            use datamatrix::placement::Bit;
            let tags: Vec<Tag> = base.iter().map(|b| if *b { Tag::HIGH } else { Tag::LOW }).collect();
            eval_array_tag(ctx, r, &tags, "tag_valid");
            let stepn = if n <= 32 * 32 || thorough { 1 } else { 7 };
            let mut i = 0;
            while i < n {
                let mut t = tags.clone();
                t[i] = Tag(7);
                eval_array_tag(ctx, r, &t, "tag_third_value_single_module");
                i += stepn;
            }
        }
        item += 1;
        // transposed symbol
        if ctx.mine(item) && r.rows != r.cols {
            let mut tr = vec![false; n];
            for y in 0..r.rows {
                for x in 0..r.cols {
                    tr[x * r.rows + y] = base[y * r.cols + x];
                }
            }
            eval_array(ctx, &tr, r.rows, "transposed");
        }
        item += 1;
    }
    ctx.exhaustive.insert("single_module_deviations_all_sizes".into(), all_dev);
    // (width, len) grid
    let maxk = if thorough { 150 } else { 80 };
    for w in 0..=150usize {
        if !ctx.mine(item + w) {
            continue;
        }
        let mut lens: Vec<usize> = vec![0, 1];
        for k in 1..=maxk {
            lens.push(k * w.max(1));
            lens.push(k * w.max(1) + 1);
            if k * w > 1 {
                lens.push(k * w - 1);
            }
        }
        for len in lens {
            let a = vec![false; len];
            eval_array(ctx, &a, w, "width_len_grid");
        }
    }
    // oversized arrays (more pixels than the largest symbol): the error class must still follow width / length
    if ctx.shard == 0 {
        for w in [1usize, 7, 100, 143, 144, 145, 150, 1000, 20737] {
            for len in [20735usize, 20736, 20737, 20738, 20880, 21025, 30000, 30001, 100000, 100001] {
                let a = vec![len % 2 == 0; len];
                eval_array(ctx, &a, w, "oversized_arrays");
            }
        }
        eval_array(ctx, &vec![true; 30000], 0, "oversized_arrays");
    }
    // well-formed renderings with surplus or missing pixels; dimensions that agree with a symbol's modulo 256
    for (i, r) in CAT.iter().enumerate() {
        if !ctx.mine(i) {
            continue;
        }
        let pl = Placement::for_row(r);
        let img = render(r, &pl.fill(&ctx.rng.bytes(r.total())));
        for extra in [1usize, 2, r.cols / 2, r.cols - 1, r.cols, r.cols + 1] {
            let mut a = img.clone();
            a.extend((0..extra).map(|k| k % 2 == 0));
            eval_array(ctx, &a, r.cols, "valid_rendering_with_surplus_pixels");
        }
        for cut in [1usize, 2, r.cols - 1, r.cols, r.cols + 1] {
            let mut a = img.clone();
            a.truncate(img.len() - cut);
            eval_array(ctx, &a, r.cols, "valid_rendering_truncated");
        }
        for (dw, dh) in [(256usize, 0usize), (0, 256), (256, 256), (512, 0), (65536, 0)] {
            let (w, h) = (r.cols + dw, r.rows + dh);
            if w * h > 3_000_000 {
                continue;
            }
            let mut a = vec![false; w * h];
            for y in 0..r.rows {
                for x in 0..r.cols {
                    a[y * w + x] = img[y * r.cols + x];
                }
            }
            eval_array(ctx, &a, w, "dimensions_congruent_mod_256");
            eval_array(ctx, &vec![true; w * h], w, "dimensions_congruent_mod_256");
        }
    }
    // off-by-one neighbours of all 48 dimensions
    for (i, r) in CAT.iter().enumerate() {
        if !ctx.mine(i) {
            continue;
        }
        for (dw, dh) in [(0i32, 1i32), (1, 0), (0, -1), (-1, 0), (1, 1), (2, 0), (0, 2)] {
            let (w, h) = ((r.cols as i32 + dw) as usize, (r.rows as i32 + dh) as usize);
            let a = vec![true; w * h];
            eval_array(ctx, &a, w, "dimension_neighbours");
        }
    }
}

pub fn replay(ctx: &mut Ctx, case: &Case) {
    match case.kind.as_str() {
        "finder_fwd" => {
            let Some(r) = case.get("size").and_then(cat::by_name) else { return ctx.harness_error("bad size") };
            eval_forward(ctx, r, &Placement::for_row(r), &case.get_bytes("cw"), "replay");
        }
        "finder_tag" => {
            use super::c07::Tag;
            use datamatrix::placement::Bit;
            let Some(r) = case.get("size").and_then(cat::by_name) else { return ctx.harness_error("bad size") };
            let mut tags = Vec::new();
            let t = case.get("tags").unwrap_or("");
            let mut it = t.chars().peekable();
            while let Some(c) = it.next() {
                match c {
                    '0' => tags.push(Tag::LOW),
                    '1' => tags.push(Tag::HIGH),
                    'x' => {
                        let mut num = String::new();
                        // third values are single digits in generated cases
                        if let Some(d) = it.next() {
                            num.push(d);
                        }
                        tags.push(Tag(num.parse().unwrap_or(7)));
                    }
                    _ => {}
                }
            }
            eval_array_tag(ctx, r, &tags, "replay");
        }
        "finder_arr" => {
            let bits = bits_from_str(case.get("bits").unwrap_or(""), case.get_usize("len"));
            eval_array(ctx, &bits, case.get_usize("width"), "replay");
        }
        _ => ctx.harness_error("unknown case kind"),
    }
}
