//! C06 — error codewords conform to the ISO/IEC 16022 Reed-Solomon code.
use crate::ctx::{guard, Case, Ctx};
use crate::json::{hex, J};
use crate::refimpl::cat::{self, Row, CAT};
use crate::refimpl::gf::{first_bad_block, Rs};
use crate::rng::hash64;
use datamatrix::errorcode::encode_error;

fn case_for(r: &Row, data: &[u8]) -> Case {
    Case::new("rs_encode").with("size", r.name).bytes("data", data)
}

/// the oracle: length and all block syndromes under independent arithmetic
pub fn eval(ctx: &mut Ctx, r: &Row, rs: &Rs, data: &[u8], tag: &str) -> Option<Vec<u8>> {
    ctx.eval();
    let size = r.size;
    let ecc = match guard(|| encode_error(data, size)) {
        Ok(e) => e,
        Err(p) => {
            ctx.violation("panic", &case_for(r, data), p);
            return None;
        }
    };
    if ecc.len() != r.ecc {
        ctx.violation("ecc_count", &case_for(r, data), format!("got {} error codewords, standard says {}", ecc.len(), r.ecc));
        return None;
    }
    let mut full = data.to_vec();
    full.extend_from_slice(&ecc);
    if let Some((b, j)) = first_bad_block(r, rs, &full) {
        ctx.violation("syndrome_nonzero", &case_for(r, data), format!("block {} of {}: syndrome S_{} != 0 (k={})", b, r.blocks, j, r.k()));
        return None;
    }
    if data.iter().any(|d| *d != 0) {
        let mut key = r.name.as_bytes().to_vec();
        key.extend_from_slice(data);
        ctx.nontrivial(hash64(&key));
    }
    ctx.count(&format!("vec.{}", tag));
    ctx.count(&format!("blocks.{}", r.blocks));
    ctx.sample(|| J::obj().set("size", J::s(r.name)).set("kind", J::s(tag)).set("data_prefix", J::s(hex(&data[..data.len().min(12)]))).set("ecc_prefix", J::s(hex(&ecc[..ecc.len().min(12)]))).set("blocks", J::i(r.blocks)).set("k", J::i(r.k())));
    Some(ecc)
}

pub fn run(ctx: &mut Ctx) {
    let thorough = ctx.is_thorough();
    let mut item = 0usize;
    for r in CAT.iter() {
        let rs = Rs::new(r.k());
        // fixed vectors
        for (tag, v) in [("zero", vec![0u8; r.data]), ("ones", vec![0xFFu8; r.data])] {
            if ctx.mine(item) {
                eval(ctx, r, &rs, &v, tag);
            }
            item += 1;
        }
        // single-bit basis of the data space
        let full_basis = thorough || r.data <= 1600;
        let nbits = 8 * r.data;
        let step = if full_basis { 1 } else { 37 };
        let mut done_all = true;
        let mut bit = 0;
        while bit < nbits {
            if ctx.mine(item) {
                let mut v = vec![0u8; r.data];
                v[bit / 8] = 0x80 >> (bit % 8);
                eval(ctx, r, &rs, &v, "basis");
            }
            item += 1;
            bit += step;
        }
        if !full_basis {
            done_all = false;
            // always include first/last codeword of every block
            for b in 0..r.blocks {
                for pos in [b, r.data - 1 - ((r.data - 1 - b) % r.blocks)] {
                    if ctx.mine(item) {
                        let mut v = vec![0u8; r.data];
                        v[pos] = 1;
                        eval(ctx, r, &rs, &v, "basis_edge");
                    }
                    item += 1;
                }
            }
        }
        let e = ctx.exhaustive.entry("single_bit_basis_all_48_sizes".into()).or_insert(true);
        *e = *e && done_all;
        // random vectors + additivity
        let n_rand = ctx.budget(if r.data > 204 { 16 * 100 } else { 16 * 400 }, 16 * 6000);
        for _ in 0..n_rand {
            let a = ctx.rng.bytes(r.data);
            let ea = eval(ctx, r, &rs, &a, "random");
            if ctx.rng.chance(1, 4) {
                let b = ctx.rng.bytes(r.data);
                let eb = eval(ctx, r, &rs, &b, "random");
                let x: Vec<u8> = a.iter().zip(&b).map(|(p, q)| p ^ q).collect();
                let ex = eval(ctx, r, &rs, &x, "random_sum");
                if let (Some(ea), Some(eb), Some(ex)) = (ea, eb, ex) {
                    ctx.count("additivity_pairs");
                    if ea.iter().zip(&eb).map(|(p, q)| p ^ q).collect::<Vec<u8>>() != ex {
                        ctx.violation("not_additive", &Case::new("rs_additive").with("size", r.name).bytes("a", &a).bytes("b", &b), "ecc(a^b) != ecc(a)^ecc(b)");
                    }
                }
            }
        }
        // structured vectors: in each interleaved block the data starts with a word that is itself a codeword of
        // the same code (so the division register returns to all-zero), followed by runs of zeros and a short tail;
        // also blocks that are entirely zero next to non-zero ones
        let n_struct = ctx.budget(16 * 40, 16 * 1500);
        for i in 0..n_struct as usize {
            let mut v = vec![0u8; r.data];
            for b in 0..r.blocks {
                let pos: Vec<usize> = (b..r.data).step_by(r.blocks).collect();
                let nd = pos.len();
                let style = (i + b * 3) % 6;
                let mut seq = vec![0u8; nd];
                match style {
                    0 => {} // all-zero block
                    1 | 2 | 3 => {
                        let k = r.k();
                        if nd > k + 1 {
                            let a = ctx.rng.range(1, nd - k);
                            let m = ctx.rng.bytes(a);
                            let par = rs.parity(m.iter().copied());
                            seq[..a].copy_from_slice(&m);
                            seq[a..a + k].copy_from_slice(&par);
                            // rest: zeros (style 1), zeros then one non-zero (2), zeros then random tail of 1..3 (3)
                            let restn = nd - a - k;
                            if style == 2 && restn > 0 {
                                seq[nd - 1] = 1 + ctx.rng.below(255) as u8;
                            } else if style == 3 && restn > 3 {
                                let t = ctx.rng.range(1, 3);
                                for x in 0..t {
                                    seq[a + k + ctx.rng.below(restn - t) + x] = ctx.rng.byte();
                                }
                            }
                        } else {
                            seq[0] = ctx.rng.byte();
                        }
                    }
                    4 => {
                        // leading zeros then random
                        let z = ctx.rng.below(nd);
                        for e in seq.iter_mut().skip(z) {
                            *e = ctx.rng.byte();
                        }
                    }
                    _ => {
                        // random then trailing zeros
                        let z = ctx.rng.below(nd);
                        for e in seq.iter_mut().take(z) {
                            *e = ctx.rng.byte();
                        }
                    }
                }
                for (j, p) in pos.iter().enumerate() {
                    v[*p] = seq[j];
                }
            }
            eval(ctx, r, &rs, &v, "structured");
        }
        // prescribed parity: data whose error codewords are sparse (a single non-zero value at each position of a
        // block's parity, all equal, first + last, ...) - the dual of the structured syndromes
        {
            let k = r.k();
            for b in 0..r.blocks {
                let pos: Vec<usize> = (b..r.data).step_by(r.blocks).collect();
                if pos.len() < k {
                    continue;
                }
                let mut targets: Vec<Vec<u8>> = Vec::new();
                for i in 0..k {
                    if i < 3 || i + 3 >= k || ctx.is_thorough() || i % 7 == 0 {
                        let mut t = vec![0u8; k];
                        t[i] = 1 + ctx.rng.below(255) as u8;
                        targets.push(t);
                    }
                }
                let c = 1 + ctx.rng.below(255) as u8;
                targets.push(vec![c; k]);
                let mut fl = vec![0u8; k];
                fl[0] = c;
                fl[k - 1] = c;
                targets.push(fl);
                targets.push(vec![0u8; k]);
                for t in targets {
                    if !ctx.mine(item) {
                        item += 1;
                        continue;
                    }
                    item += 1;
                    let d = crate::refimpl::gf::data_for_parity(k, &t);
                    let mut v = if ctx.rng.chance(1, 2) { vec![0u8; r.data] } else { ctx.rng.bytes(r.data) };
                    // block b: (optional codeword-aligned prefix is zero) ... then d at the end
                    for p in &pos {
                        v[*p] = 0;
                    }
                    for (j, dv) in d.iter().enumerate() {
                        v[pos[pos.len() - k + j]] = *dv;
                    }
                    if let Some(ecc) = eval(ctx, r, &rs, &v, "prescribed_parity") {
                        // harness cross-check: the block's parity is the prescribed one
                        let got: Vec<u8> = (0..k).map(|j| ecc[b + j * r.blocks]).collect();
                        if got != t {
                            ctx.violation("prescribed_parity_not_reproduced", &case_for(r, &v), format!("block {}: expected parity {:?}", b, &t[..k.min(8)]));
                        }
                    }
                }
            }
        }
        // division register partly zero while zero codewords are consumed: a prefix whose remainder has m leading
        // zero coefficients, followed by m zero codewords (the remainder is then only shifted: parity ends with m
        // zeros), at the end of the block and in front of a further tail
        {
            let k = r.k();
            for b in 0..r.blocks {
                let pos: Vec<usize> = (b..r.data).step_by(r.blocks).collect();
                for m in 1..=5usize.min(k - 1) {
                    if pos.len() < k + m + 2 {
                        continue;
                    }
                    for variant in 0..3 {
                        if !ctx.mine(item) {
                            item += 1;
                            continue;
                        }
                        item += 1;
                        let mut t = vec![0u8; k];
                        for e in t.iter_mut().skip(m) {
                            *e = 1 + ctx.rng.below(255) as u8;
                        }
                        let d = crate::refimpl::gf::data_for_parity(k, &t);
                        let mut v = if variant == 1 { ctx.rng.bytes(r.data) } else { vec![0u8; r.data] };
                        for p in &pos {
                            v[*p] = 0;
                        }
                        // variant 0/1: [0.. d 0^m] ; variant 2: [0.. d 0^m x y] with a random two-codeword tail
                        let tail = if variant == 2 { 2 } else { 0 };
                        let start = pos.len() - k - m - tail;
                        for (j, dv) in d.iter().enumerate() {
                            v[pos[start + j]] = *dv;
                        }
                        if tail > 0 {
                            v[pos[pos.len() - 2]] = ctx.rng.byte();
                            v[pos[pos.len() - 1]] = 1 + ctx.rng.below(255) as u8;
                        }
                        if let Some(ecc) = eval(ctx, r, &rs, &v, "register_partly_zero") {
                            if tail == 0 {
                                let got: Vec<u8> = (0..k).map(|j| ecc[b + j * r.blocks]).collect();
                                let mut want: Vec<u8> = t[m..].to_vec();
                                want.extend(std::iter::repeat(0u8).take(m));
                                if got != want {
                                    ctx.violation("prescribed_parity_not_reproduced", &case_for(r, &v), format!("block {}: expected parity {:?} (remainder shifted by {} zero codewords)", b, &want[..k.min(8)], m));
                                }
                            }
                        }
                    }
                }
            }
        }
        // encoder outputs: parity of DataMatrix::codewords() as shipped
        let n_enc = ctx.budget(16 * 20, 16 * 400);
        for _ in 0..n_enc {
            let len = ctx.rng.below(r.data.max(2) / 2 + 1);
            let msg: Vec<u8> = (0..len).map(|_| *ctx.rng.pick(b"ABCabc0123456789 ,.*\x80\xff\x01")).collect();
            let size = r.size;
            if let Ok(Ok(dm)) = guard(|| datamatrix::DataMatrix::encode(&msg, size)) {
                ctx.eval();
                let cw = dm.codewords().to_vec();
                let dl = dm.data_codewords().len();
                if cw.len() != r.total() || dl != r.data {
                    ctx.violation("symbol_codeword_count", &Case::new("rs_symbol").with("size", r.name).bytes("msg", &msg), format!("{}+{} codewords, standard {}+{}", dl, cw.len() - dl, r.data, r.ecc));
                } else if let Some((b, j)) = first_bad_block(r, &rs, &cw) {
                    ctx.violation("symbol_syndrome_nonzero", &Case::new("rs_symbol").with("size", r.name).bytes("msg", &msg), format!("block {} S_{} != 0", b, j));
                } else {
                    ctx.count("vec.encoder_output");
                    let mut key = b"sym".to_vec();
                    key.extend_from_slice(r.name.as_bytes());
                    key.extend_from_slice(&msg);
                    ctx.nontrivial(hash64(&key));
                }
            }
        }
    }
}

pub fn replay(ctx: &mut Ctx, case: &Case) {
    let Some(r) = case.get("size").and_then(cat::by_name) else { return ctx.harness_error("bad size") };
    let rs = Rs::new(r.k());
    match case.kind.as_str() {
        "rs_encode" => {
            eval(ctx, r, &rs, &case.get_bytes("data"), "replay");
        }
        "rs_additive" => {
            let (a, b) = (case.get_bytes("a"), case.get_bytes("b"));
            let x: Vec<u8> = a.iter().zip(&b).map(|(p, q)| p ^ q).collect();
            let (ea, eb, ex) = (eval(ctx, r, &rs, &a, "replay"), eval(ctx, r, &rs, &b, "replay"), eval(ctx, r, &rs, &x, "replay"));
            if let (Some(ea), Some(eb), Some(ex)) = (ea, eb, ex) {
                if ea.iter().zip(&eb).map(|(p, q)| p ^ q).collect::<Vec<u8>>() != ex {
                    ctx.violation("not_additive", case, "ecc(a^b) != ecc(a)^ecc(b)");
                }
            }
        }
        "rs_symbol" => {
            let msg = case.get_bytes("msg");
            let size = r.size;
            if let Ok(Ok(dm)) = guard(|| datamatrix::DataMatrix::encode(&msg, size)) {
                ctx.eval();
                let cw = dm.codewords().to_vec();
                if cw.len() != r.total() || dm.data_codewords().len() != r.data {
                    ctx.violation("symbol_codeword_count", case, "count");
                } else if let Some((b, j)) = first_bad_block(r, &rs, &cw) {
                    ctx.violation("symbol_syndrome_nonzero", case, format!("block {} S_{} != 0", b, j));
                }
            }
        }
        _ => ctx.harness_error("unknown case kind"),
    }
}
