//! NOTE: the fixed C10 corpus (gen/frozen.rs) depends on this generator bit for bit: do not change the algorithms.
//! Deterministic PRNG (xoshiro256**, seeded through splitmix64). Every random choice of the
//! harness derives from (VERIF_SEED, property id, shard).
#[derive(Clone)]
pub struct Rng {
    s: [u64; 4],
}

pub fn splitmix64(x: &mut u64) -> u64 {
    *x = x.wrapping_add(0x9E3779B97F4A7C15);
    let mut z = *x;
    z = (z ^ (z >> 30)).wrapping_mul(0xBF58476D1CE4E5B9);
    z = (z ^ (z >> 27)).wrapping_mul(0x94D049BB133111EB);
    z ^ (z >> 31)
}

pub fn hash64(bytes: &[u8]) -> u64 {
    // FNV-1a followed by a splitmix finaliser
    let mut h: u64 = 0xcbf29ce484222325;
    for b in bytes {
        h ^= *b as u64;
        h = h.wrapping_mul(0x100000001b3);
    }
    let mut x = h;
    splitmix64(&mut x)
}

impl Rng {
    pub fn new(seed: u64, stream: &str, shard: u64) -> Self {
        let mut x = seed ^ hash64(stream.as_bytes()).rotate_left(17) ^ shard.wrapping_mul(0xD6E8FEB86659FD93);
        let s = [splitmix64(&mut x), splitmix64(&mut x), splitmix64(&mut x), splitmix64(&mut x)];
        Rng { s }
    }
    pub fn next(&mut self) -> u64 {
        let r = self.s[1].wrapping_mul(5).rotate_left(7).wrapping_mul(9);
        let t = self.s[1] << 17;
        self.s[2] ^= self.s[0];
        self.s[3] ^= self.s[1];
        self.s[1] ^= self.s[2];
        self.s[0] ^= self.s[3];
        self.s[2] ^= t;
        self.s[3] = self.s[3].rotate_left(45);
        r
    }
    /// uniform in 0..n (n > 0)
    pub fn below(&mut self, n: usize) -> usize {
        debug_assert!(n > 0);
        ((self.next() >> 11) as u128 * n as u128 >> 53) as usize
    }
    pub fn range(&mut self, lo: usize, hi_incl: usize) -> usize {
        lo + self.below(hi_incl - lo + 1)
    }
    pub fn byte(&mut self) -> u8 {
        (self.next() >> 32) as u8
    }
    pub fn chance(&mut self, num: usize, den: usize) -> bool {
        self.below(den) < num
    }
    pub fn pick<'a, T>(&mut self, v: &'a [T]) -> &'a T {
        &v[self.below(v.len())]
    }
    /// geometric-ish length with mean about `mean`, at least 1
    pub fn geo(&mut self, mean: usize) -> usize {
        let mut n = 1;
        while n < 64 * mean && !self.chance(1, mean.max(1)) {
            n += 1;
        }
        n
    }
    pub fn bytes(&mut self, n: usize) -> Vec<u8> {
        (0..n).map(|_| self.byte()).collect()
    }
    pub fn shuffle<T>(&mut self, v: &mut [T]) {
        for i in (1..v.len()).rev() {
            let j = self.below(i + 1);
            v.swap(i, j);
        }
    }
}
