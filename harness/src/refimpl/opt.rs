//! R-OPT: minimal-symbol oracle for C10. For a given capacity it decides, by an exact
//! reachability DP over (input position, set of reachable stream lengths), whether *some* stream
//! that R-ENC can emit (= only forms the standard spells out) encodes the input within that
//! capacity using only the enabled modes, and returns the script as a certificate. The caller
//! materialises the script through R-ENC and verifies it with R-DEC before reporting anything, so
//! soundness does not depend on this file; an incomplete DP only costs sensitivity.
use super::dec::Mode;
use super::enc::{self, Header, Script};

#[derive(Clone)]
struct Bits(Vec<u64>);

impl Bits {
    fn new(cap: usize) -> Bits {
        Bits(vec![0; cap / 64 + 1])
    }
    fn set(&mut self, i: usize) {
        self.0[i / 64] |= 1 << (i % 64);
    }
    fn get(&self, i: usize) -> bool {
        i / 64 < self.0.len() && self.0[i / 64] >> (i % 64) & 1 == 1
    }
    fn any(&self) -> bool {
        self.0.iter().any(|w| *w != 0)
    }
    fn or_with(&mut self, o: &Bits) {
        for (a, b) in self.0.iter_mut().zip(&o.0) {
            *a |= *b;
        }
    }
    /// self |= (src restricted to bits <= maxbit) << sh, dropping bits > cap
    fn or_shifted(&mut self, src: &Bits, sh: usize, maxbit: Option<usize>, cap: usize) {
        let words = self.0.len();
        let (ws, bs) = (sh / 64, sh % 64);
        for (i, w) in src.0.iter().enumerate() {
            let mut w = *w;
            if w == 0 {
                continue;
            }
            if let Some(mb) = maxbit {
                let lo = i * 64;
                if lo > mb {
                    continue;
                }
                if mb - lo < 63 {
                    w &= (1u64 << (mb - lo + 1)) - 1;
                }
            }
            if i + ws < words {
                self.0[i + ws] |= w << bs;
            }
            if bs != 0 && i + ws + 1 < words {
                self.0[i + ws + 1] |= w >> (64 - bs);
            }
        }
        // clear bits above cap
        let last = cap / 64;
        let keep = cap % 64;
        if keep < 63 {
            self.0[last] &= (1u64 << (keep + 1)) - 1;
        }
    }
    fn iter_set(&self) -> impl Iterator<Item = usize> + '_ {
        self.0.iter().enumerate().flat_map(|(i, w)| (0..64).filter(move |b| w >> b & 1 == 1).map(move |b| i * 64 + b))
    }
}

pub struct Opts {
    /// harness mode mask (1 Ascii, 2 C40, 4 Text, 8 X12, 16 Edifact, 32 Base256)
    pub mask: u8,
    pub header: Header,
    /// allow a digit pair as the single ASCII codeword after an implicit unlatch
    pub implicit_pair: bool,
    /// allow a lone 254 as the very last symbol character
    pub trailing_254: bool,
}

fn nvals(c: u8, text: bool) -> usize {
    let mut v = Vec::with_capacity(4);
    enc::c40_values(c, text, &mut v);
    v.len()
}

fn ascii_cost(c: u8) -> usize {
    if c < 128 {
        1
    } else {
        2
    }
}

fn edifact_partial_bytes(r: usize) -> usize {
    match r {
        0 => 1,
        1 => 2,
        _ => 3,
    }
}

struct Dp<'a> {
    input: &'a [u8],
    cap: usize,
    mask: u8,
    /// reach[tag][i]; tag 1 = reached by a C40/Text/X12 run ended with 254, tag 0 = anything else
    reach: [Vec<Bits>; 2],
}

#[derive(Clone, Debug)]
enum Final {
    Plain { tag: usize, l: usize },
    TripleExact { mode: Mode, i: usize, l: usize },
    RuleB { mode: Mode, i: usize, l: usize },
    Implicit { mode: Mode, i: usize, j: usize, l: usize },
    EdifactEnd { i: usize, l: usize },
    EdifactTail { i: usize, j: usize, l: usize },
    B256Len0 { i: usize, l: usize },
}

impl<'a> Dp<'a> {
    fn src(&self, i: usize) -> Bits {
        let mut b = self.reach[0][i].clone();
        b.or_with(&self.reach[1][i]);
        b
    }

    fn c40_modes(&self) -> Vec<Mode> {
        let mut v = Vec::new();
        if self.mask & 2 != 0 {
            v.push(Mode::C40);
        }
        if self.mask & 4 != 0 {
            v.push(Mode::Text);
        }
        if self.mask & 8 != 0 {
            v.push(Mode::X12);
        }
        v
    }

    fn vals_of(&self, mode: Mode, c: u8) -> Option<usize> {
        match mode {
            Mode::X12 => enc::x12_value(c).map(|_| 1),
            Mode::Text => Some(nvals(c, true)),
            _ => Some(nvals(c, false)),
        }
    }

    fn forward(&mut self, h: usize) {
        let n = self.input.len();
        let cap = self.cap;
        if h <= cap {
            self.reach[0][0].set(h);
        }
        for i in 0..n {
            let src = self.src(i);
            if !src.any() {
                continue;
            }
            let c = self.input[i];
            if self.mask & 1 != 0 {
                self.reach[0][i + 1].or_shifted(&src, ascii_cost(c), None, cap);
                if i + 1 < n && c.is_ascii_digit() && self.input[i + 1].is_ascii_digit() {
                    self.reach[0][i + 2].or_shifted(&src, 1, None, cap);
                }
            }
            for mode in self.c40_modes() {
                let mut v = 0usize;
                for j in i..n {
                    match self.vals_of(mode, self.input[j]) {
                        Some(k) => v += k,
                        None => break,
                    }
                    if 1 + 2 * (v / 3) > cap {
                        break;
                    }
                    if v % 3 == 0 {
                        self.reach[1][j + 1].or_shifted(&src, 1 + 2 * v / 3 + 1, None, cap);
                    }
                }
            }
            if self.mask & 16 != 0 {
                for j in i..n {
                    if !enc::edifact_ok(self.input[j]) {
                        break;
                    }
                    let cnt = j - i + 1;
                    let ctb = 1 + 3 * (cnt / 4);
                    if ctb + 1 > cap {
                        break;
                    }
                    // the Unlatch value needs >= 3 symbol characters left at the quadruple boundary
                    if cap < 3 + ctb {
                        break;
                    }
                    let total = ctb + edifact_partial_bytes(cnt % 4);
                    self.reach[0][j + 1].or_shifted(&src, total, Some(cap - 3 - ctb), cap);
                }
            }
            if self.mask & 32 != 0 {
                for j in i..n {
                    let len = j - i + 1;
                    if len > 1555 {
                        break;
                    }
                    let cost = 1 + if len <= 249 { 1 } else { 2 } + len;
                    if cost > cap {
                        break;
                    }
                    self.reach[0][j + 1].or_shifted(&src, cost, None, cap);
                }
            }
        }
    }

    /// rule d) read literally: exactly one data character remains and it is a single C40/Text/X12
    /// value in the current mode (and therefore one ASCII codeword); with `implicit_pair` also two digits
    fn rest_one_ascii(&self, mode: Mode, j: usize, implicit_pair: bool) -> bool {
        let rest = &self.input[j..];
        (rest.len() == 1 && rest[0] < 128 && self.vals_of(mode, rest[0]) == Some(1)) || (implicit_pair && rest.len() == 2 && rest[0].is_ascii_digit() && rest[1].is_ascii_digit())
    }

    fn find_final(&self, implicit_pair: bool, trailing_254: bool) -> Option<Final> {
        let n = self.input.len();
        let cap = self.cap;
        if let Some(l) = self.reach[0][n].iter_set().next() {
            return Some(Final::Plain { tag: 0, l });
        }
        if let Some(l) = self.reach[1][n].iter_set().find(|l| *l + 1 <= cap || trailing_254) {
            return Some(Final::Plain { tag: 1, l });
        }
        for i in 0..n {
            let src = self.src(i);
            if !src.any() {
                continue;
            }
            for mode in self.c40_modes() {
                let mut v = 0usize;
                for j in i..n {
                    match self.vals_of(mode, self.input[j]) {
                        Some(k) => v += k,
                        None => break,
                    }
                    let body = 1 + 2 * (v / 3);
                    if body > cap {
                        break;
                    }
                    if j + 1 == n {
                        if v % 3 == 0 && src.get(cap - body) {
                            return Some(Final::TripleExact { mode, i, l: cap - body });
                        }
                        if v % 3 == 2 && mode != Mode::X12 && cap >= body + 2 && src.get(cap - body - 2) {
                            return Some(Final::RuleB { mode, i, l: cap - body - 2 });
                        }
                    } else if v % 3 == 0 && self.mask & 1 != 0 && self.rest_one_ascii(mode, j + 1, implicit_pair) && cap >= body + 1 && src.get(cap - body - 1) {
                        return Some(Final::Implicit { mode, i, j: j + 1, l: cap - body - 1 });
                    }
                }
            }
            if self.mask & 16 != 0 {
                for j in i..n {
                    if !enc::edifact_ok(self.input[j]) {
                        break;
                    }
                    let cnt = j - i + 1;
                    if cnt % 4 != 0 {
                        continue;
                    }
                    let body = 1 + 3 * (cnt / 4);
                    if body > cap {
                        break;
                    }
                    if j + 1 == n {
                        // ends the symbol exactly, or leaves one/two symbol characters for pads
                        for s in 0..=2usize {
                            if cap >= body + s && src.get(cap - body - s) {
                                return Some(Final::EdifactEnd { i, l: cap - body - s });
                            }
                        }
                    } else if self.mask & 1 != 0 {
                        let al = enc::ascii_len(&self.input[j + 1..], true);
                        for s in al.max(1)..=2usize {
                            if cap >= body + s && src.get(cap - body - s) {
                                return Some(Final::EdifactTail { i, j: j + 1, l: cap - body - s });
                            }
                        }
                    }
                }
            }
            if self.mask & 32 != 0 {
                let len = n - i;
                if len >= 1 && cap >= 2 + len && src.get(cap - 2 - len) {
                    return Some(Final::B256Len0 { i, l: cap - 2 - len });
                }
            }
        }
        None
    }

    /// reconstruct runs that reach ASCII-context node (j, l); `tag` restricts how the node itself was reached
    fn back(&self, mut j: usize, mut l: usize, mut tag: Option<usize>, h: usize) -> Option<Vec<(Mode, usize)>> {
        let cap = self.cap;
        let mut runs: Vec<(Mode, usize)> = Vec::new();
        'outer: while !(j == 0 && l == h) {
            let want0 = tag != Some(1);
            let want1 = tag != Some(0);
            tag = None;
            let has = |i: usize, lp: usize| self.reach[0][i].get(lp) || self.reach[1][i].get(lp);
            if want0 && j >= 1 {
                // ASCII single
                if self.mask & 1 != 0 {
                    let c = ascii_cost(self.input[j - 1]);
                    if l >= c && has(j - 1, l - c) {
                        runs.push((Mode::Ascii, 1));
                        j -= 1;
                        l -= c;
                        continue 'outer;
                    }
                    if j >= 2 && self.input[j - 1].is_ascii_digit() && self.input[j - 2].is_ascii_digit() && l >= 1 && has(j - 2, l - 1) {
                        runs.push((Mode::Ascii, 2));
                        j -= 2;
                        l -= 1;
                        continue 'outer;
                    }
                }
                if self.mask & 32 != 0 {
                    for i in (0..j).rev() {
                        let len = j - i;
                        if len > 1555 {
                            break;
                        }
                        let cost = 1 + if len <= 249 { 1 } else { 2 } + len;
                        if cost > l {
                            break;
                        }
                        if has(i, l - cost) {
                            runs.push((Mode::Base256, len));
                            l -= cost;
                            j = i;
                            continue 'outer;
                        }
                    }
                }
                if self.mask & 16 != 0 {
                    for i in (0..j).rev() {
                        if !enc::edifact_ok(self.input[i]) {
                            break;
                        }
                        let cnt = j - i;
                        let ctb = 1 + 3 * (cnt / 4);
                        let total = ctb + edifact_partial_bytes(cnt % 4);
                        if total > l || cap < 3 + ctb {
                            continue;
                        }
                        let lp = l - total;
                        if lp <= cap - 3 - ctb && has(i, lp) {
                            runs.push((Mode::Edifact, cnt));
                            l = lp;
                            j = i;
                            continue 'outer;
                        }
                    }
                }
            }
            if want1 && j >= 1 {
                for mode in self.c40_modes() {
                    let mut v = 0usize;
                    for i in (0..j).rev() {
                        match self.vals_of(mode, self.input[i]) {
                            Some(k) => v += k,
                            None => break,
                        }
                        if v % 3 != 0 {
                            continue;
                        }
                        let cost = 1 + 2 * v / 3 + 1;
                        if cost > l {
                            break;
                        }
                        if has(i, l - cost) {
                            runs.push((mode, j - i));
                            l -= cost;
                            j = i;
                            continue 'outer;
                        }
                    }
                }
            }
            return None; // inconsistent table (should not happen)
        }
        runs.reverse();
        Some(runs)
    }
}

/// Some(script) if the input fits a symbol with `cap` data codewords
pub fn feasible(input: &[u8], cap: usize, o: &Opts) -> Option<Script> {
    let n = input.len();
    let h = if o.header == Header::None { 0 } else { 1 };
    let mut dp = Dp { input, cap, mask: o.mask, reach: [vec![Bits::new(cap); n + 1], vec![Bits::new(cap); n + 1]] };
    dp.forward(h);
    let fin = dp.find_final(o.implicit_pair, o.trailing_254)?;
    let mut b256_len0 = false;
    let runs = match fin {
        Final::Plain { tag, l } => dp.back(n, l, Some(tag), h)?,
        Final::TripleExact { mode, i, l } | Final::RuleB { mode, i, l } => {
            let mut r = dp.back(i, l, None, h)?;
            r.push((mode, n - i));
            r
        }
        Final::Implicit { mode, i, j, l } => {
            let mut r = dp.back(i, l, None, h)?;
            r.push((mode, j - i));
            r.push((Mode::Ascii, n - j));
            r
        }
        Final::EdifactEnd { i, l } => {
            let mut r = dp.back(i, l, None, h)?;
            r.push((Mode::Edifact, n - i));
            r
        }
        Final::EdifactTail { i, j, l } => {
            let mut r = dp.back(i, l, None, h)?;
            r.push((Mode::Edifact, j - i));
            r.push((Mode::Ascii, n - j));
            r
        }
        Final::B256Len0 { i, l } => {
            let mut r = dp.back(i, l, None, h)?;
            r.push((Mode::Base256, n - i));
            b256_len0 = true;
            r
        }
    };
    Some(Script { runs, header: o.header, eci: None, pair_digits: true, b256_len0, implicit_unlatch: true, implicit_pair: o.implicit_pair, trailing_254: o.trailing_254, cap })
}

/// first capacity in `caps` (ascending) below `upper_excl` that is feasible
pub fn min_cap(input: &[u8], caps: &[usize], upper_excl: usize, o: &Opts) -> Option<(usize, Script)> {
    let lb = (input.len() + 1) / 2;
    for c in caps {
        if *c >= upper_excl {
            break;
        }
        if *c < lb {
            continue;
        }
        if let Some(s) = feasible(input, *c, o) {
            return Some((*c, s));
        }
    }
    None
}

pub fn selftest() -> Result<(), String> {
    use super::dec;
    let caps: Vec<usize> = {
        let mut c: Vec<usize> = super::cat::CAT.iter().map(|r| r.data).collect();
        c.sort();
        c.dedup();
        c
    };
    let cases: [(&[u8], usize); 8] = [(b"123456", 3), (b"AIM", 3), (b"ABCDEFGH12345678", 12), (b"A", 3), (b"", 3), (b"DATA", 5), (b"ABCDEFGHI", 8), (b"\xab\xe4\xf6\xfc\xe9\xbb", 8)];
    for (inp, want) in cases {
        let o = Opts { mask: 63, header: Header::None, implicit_pair: false, trailing_254: true };
        let got = min_cap(inp, &caps, usize::MAX, &o);
        match got {
            Some((c, sc)) if c == want => {
                let (w, _) = enc::encode(inp, &sc).map_err(|e| format!("R-OPT script not accepted by R-ENC for {:?}: {} ({})", inp, e, sc.describe()))?;
                let d = dec::decode(&w).map_err(|e| format!("R-OPT/R-ENC stream rejected by R-DEC: {}", e))?;
                if d.bytes != inp || w.len() != c {
                    return Err(format!("R-OPT certificate for {:?} does not decode back", inp));
                }
            }
            other => return Err(format!("R-OPT: {:?} -> {:?}, expected {}", inp, other.map(|x| x.0), want)),
        }
    }
    Ok(())
}
