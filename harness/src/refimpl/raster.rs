//! R-RASTER: interpret a path (Move/Horizontal/Vertical/Close, relative coordinates, starting at
//! (0,0), Move relative to the start of the sub-path just closed) and fill it with the even-odd
//! rule by toggling a parity bit per crossed row for every vertical edge and prefix-xoring.
use datamatrix::placement::PathSegment;

#[derive(Debug)]
pub struct Rendered {
    pub bits: Vec<bool>,
    pub subpaths: usize,
    pub segments: usize,
}

pub fn fill(path: &[PathSegment], w: usize, h: usize) -> Result<Rendered, String> {
    if path.is_empty() {
        return Ok(Rendered { bits: vec![false; w * h], subpaths: 0, segments: 0 });
    }
    // parity[y][x]: toggled for every vertical unit edge at x spanning row y
    let mut par = vec![false; (w + 1) * h.max(1)];
    let (mut x, mut y) = (0i32, 0i32);
    let (mut sx, mut sy) = (0i32, 0i32);
    let mut prev_close = false;
    let mut open = false; // something drawn since the last Close
    let mut subpaths = 0;
    let mut segments = 0;
    let (wi, hi) = (w as i32, h as i32);
    let mut vedge = |x: i32, y0: i32, y1: i32, par: &mut Vec<bool>| {
        let (a, b) = if y0 < y1 { (y0, y1) } else { (y1, y0) };
        for yy in a..b {
            let i = yy as usize * (w + 1) + x as usize;
            par[i] = !par[i];
        }
    };
    for (idx, seg) in path.iter().enumerate() {
        match seg {
            PathSegment::Move(dx, dy) => {
                if !prev_close {
                    return Err(format!("segment {}: Move not directly after Close", idx));
                }
                x = sx + *dx as i32;
                y = sy + *dy as i32;
                sx = x;
                sy = y;
                if x < 0 || x > wi || y < 0 || y > hi {
                    return Err(format!("segment {}: Move leaves the bounding box ({},{})", idx, x, y));
                }
                prev_close = false;
            }
            PathSegment::Horizontal(d) => {
                if *d == 0 {
                    return Err(format!("segment {}: zero-length Horizontal", idx));
                }
                x += *d as i32;
                if x < 0 || x > wi {
                    return Err(format!("segment {}: x = {} outside [0,{}]", idx, x, w));
                }
                open = true;
                prev_close = false;
                segments += 1;
            }
            PathSegment::Vertical(d) => {
                if *d == 0 {
                    return Err(format!("segment {}: zero-length Vertical", idx));
                }
                let ny = y + *d as i32;
                if ny < 0 || ny > hi {
                    return Err(format!("segment {}: y = {} outside [0,{}]", idx, ny, h));
                }
                vedge(x, y, ny, &mut par);
                y = ny;
                open = true;
                prev_close = false;
                segments += 1;
            }
            PathSegment::Close => {
                if !open {
                    return Err(format!("segment {}: Close of an empty sub-path", idx));
                }
                // implicit closing segment must be axis-parallel
                if x != sx && y != sy {
                    return Err(format!("segment {}: closing segment from ({},{}) to ({},{}) is not axis-parallel", idx, x, y, sx, sy));
                }
                if x == sx && y != sy {
                    vedge(x, y, sy, &mut par);
                }
                x = sx;
                y = sy;
                open = false;
                prev_close = true;
                subpaths += 1;
            }
        }
    }
    if !prev_close {
        return Err("path does not end with Close".into());
    }
    let mut bits = vec![false; w * h];
    for yy in 0..h {
        let mut inside = false;
        for xx in 0..w {
            if par[yy * (w + 1) + xx] {
                inside = !inside;
            }
            bits[yy * w + xx] = inside;
        }
        if par[yy * (w + 1) + w] {
            inside = !inside;
        }
        if inside {
            return Err(format!("row {}: odd number of crossings", yy));
        }
    }
    Ok(Rendered { bits, subpaths, segments })
}
