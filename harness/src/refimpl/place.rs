//! R-PLACE: ISO/IEC 16022 Annex F placement program ("ECC200") with the ISO/IEC 21471 row wrap,
//! restated in the standard's own fill-an-array style. R-FINDER: rendering of the finder,
//! clock tracks and alignment bars around the mapping matrix, and its strict inverse.
use super::cat::Row;

pub struct Placement {
    pub nrow: usize,
    pub ncol: usize,
    /// for each module of the mapping matrix: Some((codeword index (0-based), bit 1..=8, 1 = MSB)),
    /// or None for the left-over corner modules
    pub cell: Vec<Option<(usize, u8)>>,
}

struct P {
    nrow: i32,
    ncol: i32,
    a: Vec<i32>, // 0 = unset, else 10*chr + bit (chr 1-based), as in the standard's listing
}

impl P {
    fn module(&mut self, mut row: i32, mut col: i32, chr: i32, bit: i32) {
        if row < 0 {
            row += self.nrow;
            col += 4 - ((self.nrow + 4) % 8);
        }
        if col < 0 {
            col += self.ncol;
            row += 4 - ((self.ncol + 4) % 8);
        }
        // ISO/IEC 21471: wrap for the 8-row rectangular extensions
        if row >= self.nrow {
            row -= self.nrow;
        }
        self.a[(row * self.ncol + col) as usize] = 10 * chr + bit;
    }
    fn utah(&mut self, row: i32, col: i32, chr: i32) {
        self.module(row - 2, col - 2, chr, 1);
        self.module(row - 2, col - 1, chr, 2);
        self.module(row - 1, col - 2, chr, 3);
        self.module(row - 1, col - 1, chr, 4);
        self.module(row - 1, col, chr, 5);
        self.module(row, col - 2, chr, 6);
        self.module(row, col - 1, chr, 7);
        self.module(row, col, chr, 8);
    }
    fn corner1(&mut self, chr: i32) {
        let (nrow, ncol) = (self.nrow, self.ncol);
        self.module(nrow - 1, 0, chr, 1);
        self.module(nrow - 1, 1, chr, 2);
        self.module(nrow - 1, 2, chr, 3);
        self.module(0, ncol - 2, chr, 4);
        self.module(0, ncol - 1, chr, 5);
        self.module(1, ncol - 1, chr, 6);
        self.module(2, ncol - 1, chr, 7);
        self.module(3, ncol - 1, chr, 8);
    }
    fn corner2(&mut self, chr: i32) {
        let (nrow, ncol) = (self.nrow, self.ncol);
        self.module(nrow - 3, 0, chr, 1);
        self.module(nrow - 2, 0, chr, 2);
        self.module(nrow - 1, 0, chr, 3);
        self.module(0, ncol - 4, chr, 4);
        self.module(0, ncol - 3, chr, 5);
        self.module(0, ncol - 2, chr, 6);
        self.module(0, ncol - 1, chr, 7);
        self.module(1, ncol - 1, chr, 8);
    }
    fn corner3(&mut self, chr: i32) {
        let (nrow, ncol) = (self.nrow, self.ncol);
        self.module(nrow - 3, 0, chr, 1);
        self.module(nrow - 2, 0, chr, 2);
        self.module(nrow - 1, 0, chr, 3);
        self.module(0, ncol - 2, chr, 4);
        self.module(0, ncol - 1, chr, 5);
        self.module(1, ncol - 1, chr, 6);
        self.module(2, ncol - 1, chr, 7);
        self.module(3, ncol - 1, chr, 8);
    }
    fn corner4(&mut self, chr: i32) {
        let (nrow, ncol) = (self.nrow, self.ncol);
        self.module(nrow - 1, 0, chr, 1);
        self.module(nrow - 1, ncol - 1, chr, 2);
        self.module(0, ncol - 3, chr, 3);
        self.module(0, ncol - 2, chr, 4);
        self.module(0, ncol - 1, chr, 5);
        self.module(1, ncol - 3, chr, 6);
        self.module(1, ncol - 2, chr, 7);
        self.module(1, ncol - 1, chr, 8);
    }
}

pub fn ecc200(nrow: usize, ncol: usize) -> Placement {
    let mut p = P { nrow: nrow as i32, ncol: ncol as i32, a: vec![0; nrow * ncol] };
    let (nr, nc) = (p.nrow, p.ncol);
    let mut chr = 1;
    let mut row = 4;
    let mut col = 0;
    loop {
        if row == nr && col == 0 {
            p.corner1(chr);
            chr += 1;
        }
        if row == nr - 2 && col == 0 && nc % 4 != 0 {
            p.corner2(chr);
            chr += 1;
        }
        if row == nr - 2 && col == 0 && nc % 8 == 4 {
            p.corner3(chr);
            chr += 1;
        }
        if row == nr + 4 && col == 2 && nc % 8 == 0 {
            p.corner4(chr);
            chr += 1;
        }
        loop {
            if row < nr && col >= 0 && p.a[(row * nc + col) as usize] == 0 {
                p.utah(row, col, chr);
                chr += 1;
            }
            row -= 2;
            col += 2;
            if !(row >= 0 && col < nc) {
                break;
            }
        }
        row += 1;
        col += 3;
        loop {
            if row >= 0 && col < nc && p.a[(row * nc + col) as usize] == 0 {
                p.utah(row, col, chr);
                chr += 1;
            }
            row += 2;
            col -= 2;
            if !(row < nr && col >= 0) {
                break;
            }
        }
        row += 3;
        col += 1;
        if !(row < nr || col < nc) {
            break;
        }
    }
    let cell = p.a.iter().map(|v| if *v == 0 { None } else { Some(((*v / 10 - 1) as usize, (*v % 10) as u8)) }).collect();
    Placement { nrow, ncol, cell }
}

impl Placement {
    pub fn for_row(r: &Row) -> Placement {
        ecc200(r.map_rows(), r.map_cols())
    }
    /// mapping matrix (row-major bools) for a codeword vector; fixed corner pattern included
    pub fn fill(&self, cw: &[u8]) -> Vec<bool> {
        let mut m = vec![false; self.nrow * self.ncol];
        let mut unset = false;
        for (i, c) in self.cell.iter().enumerate() {
            match c {
                Some((chr, bit)) => m[i] = (cw[*chr] >> (8 - *bit)) & 1 == 1,
                None => unset = true,
            }
        }
        if unset {
            // "if (!array[nrow*ncol-1]) array[nrow*ncol-1] = array[nrow*ncol-ncol-2] = 1"
            m[self.nrow * self.ncol - 1] = true;
            m[self.nrow * self.ncol - self.ncol - 2] = true;
        }
        m
    }
    pub fn unset_cells(&self) -> Vec<usize> {
        self.cell.iter().enumerate().filter(|(_, c)| c.is_none()).map(|(i, _)| i).collect()
    }
    /// modules (index into the mapping matrix) of codeword `chr`, bit 1..8 order
    pub fn modules_of(&self, chr: usize) -> [usize; 8] {
        let mut out = [usize::MAX; 8];
        for (i, c) in self.cell.iter().enumerate() {
            if let Some((ch, bit)) = c {
                if *ch == chr {
                    out[(*bit - 1) as usize] = i;
                }
            }
        }
        out
    }
    /// check bijection: every (chr, bit) for chr < n appears exactly once
    pub fn is_bijection(&self, n: usize) -> bool {
        let mut seen = vec![false; n * 8];
        for c in self.cell.iter().flatten() {
            let idx = c.0 * 8 + (c.1 as usize - 1);
            if c.0 >= n || c.1 < 1 || c.1 > 8 || seen[idx] {
                return false;
            }
            seen[idx] = true;
        }
        seen.iter().all(|s| *s)
    }
}

// ------------------------------------------------------------------------------------------
// R-FINDER

/// Render the full symbol (rows x cols, row-major) from the mapping matrix.
pub fn render(r: &Row, map: &[bool]) -> Vec<bool> {
    let (rh, rc) = (r.reg_rows(), r.reg_cols());
    let mut out = vec![false; r.rows * r.cols];
    for y in 0..r.rows {
        for x in 0..r.cols {
            let (ly, lx) = (y % (rh + 2), x % (rc + 2));
            let (ry, rx) = (y / (rh + 2), x / (rc + 2));
            let v = if ly == rh + 1 || lx == 0 {
                true // solid L of every data region
            } else if ly == 0 {
                lx % 2 == 0 // top clock track
            } else if lx == rc + 1 {
                ly % 2 == 1 // right clock track
            } else {
                map[(ry * rh + ly - 1) * r.map_cols() + (rx * rc + lx - 1)]
            };
            out[y * r.cols + x] = v;
        }
    }
    out
}

/// Strict inverse of `render`: None unless every finder/clock/alignment module is as specified.
pub fn parse(r: &Row, bits: &[bool]) -> Option<Vec<bool>> {
    if bits.len() != r.rows * r.cols {
        return None;
    }
    let (rh, rc) = (r.reg_rows(), r.reg_cols());
    let mut map = vec![false; r.map_rows() * r.map_cols()];
    for y in 0..r.rows {
        for x in 0..r.cols {
            let (ly, lx) = (y % (rh + 2), x % (rc + 2));
            let (ry, rx) = (y / (rh + 2), x / (rc + 2));
            let b = bits[y * r.cols + x];
            if ly == rh + 1 || lx == 0 {
                if !b {
                    return None;
                }
            } else if ly == 0 {
                if b != (lx % 2 == 0) {
                    return None;
                }
            } else if lx == rc + 1 {
                if b != (ly % 2 == 1) {
                    return None;
                }
            } else {
                map[(ry * rh + ly - 1) * r.map_cols() + (rx * rc + lx - 1)] = b;
            }
        }
    }
    Some(map)
}

/// position in the full symbol of mapping-matrix module `i`
pub fn symbol_pos(r: &Row, i: usize) -> usize {
    let (my, mx) = (i / r.map_cols(), i % r.map_cols());
    let y = 1 + my + 2 * (my / r.reg_rows());
    let x = 1 + mx + 2 * (mx / r.reg_cols());
    y * r.cols + x
}

pub fn selftest() -> Result<(), String> {
    use super::cat::CAT;
    for r in CAT.iter() {
        let p = Placement::for_row(r);
        if !p.is_bijection(r.total()) {
            return Err(format!("R-PLACE {}: not a bijection", r.name));
        }
        let unset = p.unset_cells();
        if r.has_corner_pattern() {
            let (h, w) = (p.nrow, p.ncol);
            let want = vec![(h - 2) * w + w - 2, (h - 2) * w + w - 1, (h - 1) * w + w - 2, (h - 1) * w + w - 1];
            if unset != want {
                return Err(format!("R-PLACE {}: unset cells {:?}", r.name, unset));
            }
        } else if !unset.is_empty() {
            return Err(format!("R-PLACE {}: unexpected unset cells", r.name));
        }
        // render/parse inverse
        let cw: Vec<u8> = (0..r.total()).map(|i| (i * 73 + 5) as u8).collect();
        let m = p.fill(&cw);
        let img = render(r, &m);
        if parse(r, &img).as_deref() != Some(&m[..]) {
            return Err(format!("R-FINDER {}: parse(render) != id", r.name));
        }
        for i in 0..m.len() {
            if img[symbol_pos(r, i)] != m[i] {
                return Err(format!("R-FINDER {}: symbol_pos", r.name));
            }
        }
    }
    // ISO/IEC 16022 Annex O example, 10x10: the 8x8 mapping matrix of Figure F.1 / O.
    // first row of the 8x8 placement grid in the standard: 2.1 2.2 3.6 3.7 3.8 4.3 4.4 4.5
    let p = ecc200(8, 8);
    let want_row0 = [(1, 1), (1, 2), (2, 6), (2, 7), (2, 8), (3, 3), (3, 4), (3, 5)];
    for (j, w) in want_row0.iter().enumerate() {
        if p.cell[j] != Some((w.0 as usize, w.1 as u8)) {
            return Err(format!("R-PLACE 8x8 row0[{}] = {:?}", j, p.cell[j]));
        }
    }
    // last row: 6.6 6.7 6.8 ... per Figure: 5.? We check the well-known corner: module (7,7) is 7.8? skip
    Ok(())
}
