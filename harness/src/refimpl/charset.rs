//! R-CHARSET: ISO/IEC 8859-1, -9, -11 by rule (not tabulated), UTF-8 / US-ASCII validity.

/// Some(char) for a byte the character set defines as a *printable* character, None for control
/// and undefined bytes (the crate reports those as a charset error).
pub fn decode_byte(eci: u32, b: u8) -> Option<char> {
    let printable_low = (0x20..=0x7E).contains(&b);
    match eci {
        // ECI 0 is not used here (default interpretation handled by the caller); 3 = ISO 8859-1
        3 => {
            if printable_low || b >= 0xA0 {
                Some(b as char)
            } else {
                None
            }
        }
        // ISO 8859-9 (Latin-5): Latin-1 with six Turkish letters replacing the Icelandic ones
        11 => {
            if printable_low {
                return Some(b as char);
            }
            if b < 0xA0 {
                return None;
            }
            Some(match b {
                0xD0 => '\u{011E}',
                0xDD => '\u{0130}',
                0xDE => '\u{015E}',
                0xF0 => '\u{011F}',
                0xFD => '\u{0131}',
                0xFE => '\u{015F}',
                _ => b as char,
            })
        }
        // ISO 8859-11 (Thai): A0 NBSP, A1..DA -> U+0E01..U+0E3A, DF..FB -> U+0E3F..U+0E5B
        13 => {
            if printable_low {
                return Some(b as char);
            }
            match b {
                0xA0 => Some('\u{00A0}'),
                0xA1..=0xDA => char::from_u32(0x0E01 + (b as u32 - 0xA1)),
                0xDF..=0xFB => char::from_u32(0x0E3F + (b as u32 - 0xDF)),
                _ => None,
            }
        }
        _ => None,
    }
}

/// expected result of decoding `payload` under `eci` (3, 11, 13, 26, 27): Some(string) or None = charset error
pub fn decode(eci: u32, payload: &[u8]) -> Option<String> {
    match eci {
        3 | 11 | 13 => payload.iter().map(|b| decode_byte(eci, *b)).collect(),
        26 => valid_utf8(payload).then(|| String::from_utf8(payload.to_vec()).unwrap()),
        27 => payload.iter().all(|b| *b < 0x80).then(|| payload.iter().map(|b| *b as char).collect()),
        _ => None,
    }
}

/// UTF-8 validity per RFC 3629 / Unicode Table 3-7, written out by hand (independent of core::str)
pub fn valid_utf8(b: &[u8]) -> bool {
    let mut i = 0;
    while i < b.len() {
        let c = b[i];
        let (n, lo, hi) = match c {
            0x00..=0x7F => (0, 0x80, 0xBF),
            0xC2..=0xDF => (1, 0x80, 0xBF),
            0xE0 => (2, 0xA0, 0xBF),
            0xE1..=0xEC | 0xEE..=0xEF => (2, 0x80, 0xBF),
            0xED => (2, 0x80, 0x9F),
            0xF0 => (3, 0x90, 0xBF),
            0xF1..=0xF3 => (3, 0x80, 0xBF),
            0xF4 => (3, 0x80, 0x8F),
            _ => return false,
        };
        for k in 1..=n {
            if i + k >= b.len() {
                return false;
            }
            let x = b[i + k];
            let (l, h) = if k == 1 { (lo, hi) } else { (0x80, 0xBF) };
            if x < l || x > h {
                return false;
            }
        }
        i += n + 1;
    }
    true
}

/// Latin-1 printable: 0x20..=0x7E and 0xA0..=0xFF
pub fn latin1_printable_char(c: char) -> bool {
    let u = c as u32;
    (0x20..=0x7E).contains(&u) || (0xA0..=0xFF).contains(&u)
}

pub fn selftest() -> Result<(), String> {
    for b in 0..=255u8 {
        // cross-check the hand-written UTF-8 validator against std on all 1- and 2-byte sequences
        if valid_utf8(&[b]) != std::str::from_utf8(&[b]).is_ok() {
            return Err(format!("R-CHARSET: utf8 validity of [{}]", b));
        }
        for c in 0..=255u8 {
            if valid_utf8(&[b, c]) != std::str::from_utf8(&[b, c]).is_ok() {
                return Err(format!("R-CHARSET: utf8 validity of [{}, {}]", b, c));
            }
        }
    }
    for s in [&[0xE0u8, 0x80, 0x80][..], &[0xED, 0xA0, 0x80], &[0xF4, 0x90, 0x80, 0x80], &[0xF0, 0x9F, 0xA5, 0xB8], &[0xE2, 0x82, 0xAC], &[0xC0, 0xAF], &[0xF0, 0x80, 0x80, 0x80]] {
        if valid_utf8(s) != std::str::from_utf8(s).is_ok() {
            return Err(format!("R-CHARSET: utf8 validity of {:?}", s));
        }
    }
    if decode_byte(13, 0xDB).is_some() || decode_byte(13, 0xFC).is_some() || decode_byte(13, 0xDA) != Some('\u{0E3A}') || decode_byte(13, 0xFB) != Some('\u{0E5B}') {
        return Err("R-CHARSET: 8859-11".into());
    }
    if decode_byte(11, 0xDD) != Some('\u{0130}') || decode_byte(11, 0xFD) != Some('\u{0131}') || decode_byte(11, 0xFF) != Some('\u{00FF}') {
        return Err("R-CHARSET: 8859-9".into());
    }
    Ok(())
}
