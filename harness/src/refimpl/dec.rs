//! R-DEC: an independent, strict decoder of ISO/IEC 16022 ECC 200 data codeword streams that
//! records an event log while it walks the stream. Written from the standard's clauses
//! (5.2.3 ASCII, 5.2.4 control codewords, 5.2.5 C40, 5.2.6 Text, 5.2.7 X12, 5.2.8 EDIFACT,
//! 5.2.9 Base 256, 5.4 ECI, Annex B randomising algorithms); shares no code or tables with the
//! crate. The input is always the *complete* data codeword sequence of a symbol, because the
//! end-of-symbol rules refer to the number of symbol characters that remain.
//!
//! Two documented leniencies (DESIGN.md section 3), each counted:
//!  L1  a Shift / Shift-2+Upper-Shift value that merely completes the last triple of a C40/Text
//!      run (nothing follows it in that run) is padding;
//!  L2  a lone 254 as the very last symbol character after a C40/Text/X12 run is an Unlatch.

#[derive(Clone, Copy, PartialEq, Eq, Debug, Hash, PartialOrd, Ord)]
pub enum Mode {
    Ascii,
    C40,
    Text,
    X12,
    Edifact,
    Base256,
}

impl Mode {
    pub fn name(self) -> &'static str {
        match self {
            Mode::Ascii => "Ascii",
            Mode::C40 => "C40",
            Mode::Text => "Text",
            Mode::X12 => "X12",
            Mode::Edifact => "Edifact",
            Mode::Base256 => "Base256",
        }
    }
    /// harness mode mask bit (see util::modes_from_mask)
    pub fn bit(self) -> u8 {
        match self {
            Mode::Ascii => 1,
            Mode::C40 => 2,
            Mode::Text => 4,
            Mode::X12 => 8,
            Mode::Edifact => 16,
            Mode::Base256 => 32,
        }
    }
    pub fn latch(self) -> u8 {
        match self {
            Mode::Ascii => 0,
            Mode::C40 => 230,
            Mode::Base256 => 231,
            Mode::X12 => 238,
            Mode::Text => 239,
            Mode::Edifact => 240,
        }
    }
    pub const ALL: [Mode; 6] = [Mode::Ascii, Mode::C40, Mode::Text, Mode::X12, Mode::Edifact, Mode::Base256];
}

/// how a run / the data ended
#[derive(Clone, Copy, PartialEq, Eq, Debug, Hash, PartialOrd, Ord)]
pub enum EndForm {
    /// data ended in ASCII mode with pad characters following
    AsciiPadded,
    /// data ended in ASCII mode exactly at the end of the symbol
    AsciiExact,
    /// C40/Text/X12 run ended exactly at the end of the symbol on a triple boundary (rule a)
    TripleExact,
    /// C40/Text: last triple completed with a pad Shift (rule b and L1)
    TriplePadShift,
    /// explicit 254 followed by ASCII codeword(s) that end the symbol (rule c)
    UnlatchThenAsciiAtEnd,
    /// a single remaining symbol character decoded as ASCII without Unlatch (rule d)
    ImplicitAsciiLast,
    /// lone 254 as last symbol character (L2)
    Trailing254,
    /// EDIFACT: <= 2 remaining symbol characters decoded as ASCII without Unlatch
    EdifactAsciiTail,
    /// EDIFACT run ended exactly at the end of the symbol on a quadruple boundary
    EdifactExact,
    /// Base 256 with length 0 (runs to the end of the symbol)
    Base256ToEnd,
    /// Base 256 with explicit length ended exactly at the end of the symbol
    Base256ExactExplicit,
}

#[derive(Clone, Debug, PartialEq, Eq)]
pub enum Ev {
    Macro { which: u8 },
    Fnc1Start,
    Latch { mode: Mode, pos: usize },
    /// explicit unlatch (254 or EDIFACT value 31) at codeword index pos
    Unlatch { from: Mode, pos: usize },
    /// return to ASCII without an unlatch codeword (end of Base256 field, implicit rules)
    Return { from: Mode, pos: usize, implicit_rule: bool },
    Char { mode: Mode, byte: u8, pos: usize },
    Fnc1 { pos: usize },
    Eci { n: u32, pos: usize, out: usize },
    PadStart { pos: usize },
}

#[derive(Clone, Debug, Default)]
pub struct Decoded {
    /// message bytes, with Macro header/trailer expanded
    pub bytes: Vec<u8>,
    /// bytes without macro expansion (what the encoder was given as body)
    pub body: Vec<u8>,
    /// mode that carried each body byte
    pub body_modes: Vec<Mode>,
    /// codeword index at which each body byte's encoding started (approximate for packed modes)
    pub body_pos: Vec<usize>,
    pub events: Vec<Ev>,
    pub macro_cw: Option<u8>,
    pub fnc1_start: bool,
    /// (offset into body, ECI number)
    pub ecis: Vec<(usize, u32)>,
    /// index of the 129 pad codeword, if any
    pub pad_start: Option<usize>,
    pub end_form: Option<EndForm>,
    pub l1_uses: u32,
    pub l2_uses: u32,
    /// latches in order
    pub latches: Vec<Mode>,
    /// interior FNC1 positions
    pub fnc1_inner: u32,
}

impl Decoded {
    pub fn unpadded_len(&self, total: usize) -> usize {
        self.pad_start.unwrap_or(total)
    }
    /// modes that carried at least one character, in order of first use per run
    pub fn run_modes(&self) -> Vec<Mode> {
        let mut v: Vec<Mode> = Vec::new();
        for m in &self.body_modes {
            if v.last() != Some(m) {
                v.push(*m);
            }
        }
        v
    }
}

pub const MACRO05_HEAD: &[u8] = b"[)>\x1e05\x1d";
pub const MACRO06_HEAD: &[u8] = b"[)>\x1e06\x1d";
pub const MACRO_TRAIL: &[u8] = b"\x1e\x04";

fn unrandomize_253(cw: u8, pos1: usize) -> i32 {
    // Annex B.1, pos1 is the 1-based position of the codeword in the symbol
    let pr = ((149 * pos1) % 253 + 1) as i32;
    let t = cw as i32 - pr;
    if t >= 1 {
        t
    } else {
        t + 254
    }
}

fn unrandomize_255(cw: u8, pos1: usize) -> u8 {
    // Annex B.2
    let pr = ((149 * pos1) % 255 + 1) as i32;
    let t = cw as i32 - pr;
    (if t >= 0 { t } else { t + 256 }) as u8
}

pub fn randomize_253(pos1: usize) -> u8 {
    let pr = (149 * pos1) % 253 + 1;
    let t = 129 + pr;
    (if t <= 254 { t } else { t - 254 }) as u8
}

pub fn randomize_255(v: u8, pos1: usize) -> u8 {
    let pr = (149 * pos1) % 255 + 1;
    let t = v as usize + pr;
    (if t <= 255 { t } else { t - 256 }) as u8
}

const C40_BASE: &[u8] = b" 0123456789ABCDEFGHIJKLMNOPQRSTUVWXYZ";
const TEXT_BASE: &[u8] = b" 0123456789abcdefghijklmnopqrstuvwxyz";

fn shift2_char(v: u8) -> Option<u8> {
    // Table 6 Shift 2 set: ! " # $ % & ' ( ) * + , - . / : ; < = > ? @ [ \ ] ^ _
    match v {
        0..=14 => Some(33 + v),
        15..=21 => Some(58 + (v - 15)),
        22..=26 => Some(91 + (v - 22)),
        _ => None,
    }
}

fn shift3_char(v: u8, text: bool) -> Option<u8> {
    if v > 31 {
        return None;
    }
    let c = 96 + v; // ` a..z { | } ~ DEL
    if text && (1..=26).contains(&v) {
        Some(b'A' + (v - 1))
    } else {
        Some(c)
    }
}

fn x12_char(v: u8) -> Option<u8> {
    match v {
        0 => Some(13),
        1 => Some(b'*'),
        2 => Some(b'>'),
        3 => Some(b' '),
        4..=13 => Some(b'0' + (v - 4)),
        14..=39 => Some(b'A' + (v - 14)),
        _ => None,
    }
}

struct St<'a> {
    cw: &'a [u8],
    i: usize,
    d: Decoded,
}

impl<'a> St<'a> {
    fn left(&self) -> usize {
        self.cw.len() - self.i
    }
    fn out(&mut self, mode: Mode, byte: u8, pos: usize) {
        self.d.body.push(byte);
        self.d.body_modes.push(mode);
        self.d.body_pos.push(pos);
        self.d.events.push(Ev::Char { mode, byte, pos });
    }
}

pub fn decode(cw: &[u8]) -> Result<Decoded, String> {
    let mut s = St { cw, i: 0, d: Decoded::default() };
    if s.left() > 0 && (cw[0] == 236 || cw[0] == 237) {
        s.d.macro_cw = Some(cw[0]);
        s.d.events.push(Ev::Macro { which: if cw[0] == 236 { 5 } else { 6 } });
        s.i = 1;
    }
    if s.left() > 0 && cw[s.i] == 232 && s.i == 0 {
        // FNC1 in first position: GS1 symbol
        s.d.fnc1_start = true;
        s.d.events.push(Ev::Fnc1Start);
        s.i += 1;
    }
    ascii(&mut s)?;
    let mut d = s.d;
    d.bytes = match d.macro_cw {
        Some(236) => [MACRO05_HEAD, &d.body[..], MACRO_TRAIL].concat(),
        Some(237) => [MACRO06_HEAD, &d.body[..], MACRO_TRAIL].concat(),
        _ => d.body.clone(),
    };
    Ok(d)
}

/// ASCII context; returns when the stream is exhausted
fn ascii(s: &mut St) -> Result<(), String> {
    let n = s.cw.len();
    let mut ended_in_ascii_data = true;
    while s.i < n {
        let pos = s.i;
        let c = s.cw[pos];
        s.i += 1;
        match c {
            0 => return Err(format!("codeword 0 at {}", pos)),
            1..=128 => {
                s.out(Mode::Ascii, c - 1, pos);
                ended_in_ascii_data = true;
            }
            129 => {
                // pad: everything up to the end of the symbol must be 253-state randomised pads
                s.d.pad_start = Some(pos);
                s.d.events.push(Ev::PadStart { pos });
                for j in pos + 1..n {
                    // compare with the forward randomisation: 129 + R, minus 254 if above 254 (never 255, never 129)
                    if s.cw[j] != randomize_253(j + 1) {
                        return Err(format!("codeword {} at {} in the pad area is not a randomised pad", s.cw[j], j));
                    }
                }
                s.i = n;
                s.d.end_form = Some(EndForm::AsciiPadded);
                return Ok(());
            }
            130..=229 => {
                let v = c - 130;
                s.out(Mode::Ascii, b'0' + v / 10, pos);
                s.out(Mode::Ascii, b'0' + v % 10, pos);
                ended_in_ascii_data = true;
            }
            230 | 239 => {
                let mode = if c == 230 { Mode::C40 } else { Mode::Text };
                s.d.events.push(Ev::Latch { mode, pos });
                s.d.latches.push(mode);
                c40_like(s, mode)?;
                ended_in_ascii_data = false;
            }
            238 => {
                s.d.events.push(Ev::Latch { mode: Mode::X12, pos });
                s.d.latches.push(Mode::X12);
                c40_like(s, Mode::X12)?;
                ended_in_ascii_data = false;
            }
            240 => {
                s.d.events.push(Ev::Latch { mode: Mode::Edifact, pos });
                s.d.latches.push(Mode::Edifact);
                edifact(s)?;
                ended_in_ascii_data = false;
            }
            231 => {
                s.d.events.push(Ev::Latch { mode: Mode::Base256, pos });
                s.d.latches.push(Mode::Base256);
                base256(s)?;
                ended_in_ascii_data = false;
            }
            232 => {
                // FNC1 not in first position: transmitted as GS (ISO/IEC 15424 protocol)
                s.d.events.push(Ev::Fnc1 { pos });
                s.d.fnc1_inner += 1;
                s.out(Mode::Ascii, 29, pos);
            }
            233 => return Err("Structured Append not supported by R-DEC".into()),
            234 => return Err("Reader Programming not supported by R-DEC".into()),
            235 => {
                if s.i >= n {
                    return Err("Upper Shift as last codeword".into());
                }
                let c2 = s.cw[s.i];
                s.i += 1;
                if !(1..=128).contains(&c2) {
                    return Err(format!("codeword {} after Upper Shift", c2));
                }
                s.out(Mode::Ascii, c2 - 1 + 128, pos);
                ended_in_ascii_data = true;
            }
            236 | 237 => return Err(format!("Macro codeword at position {}", pos)),
            241 => {
                let n_eci = eci(s)?;
                let out = s.d.body.len();
                s.d.ecis.push((out, n_eci));
                s.d.events.push(Ev::Eci { n: n_eci, pos, out });
            }
            254 => return Err(format!("Unlatch (254) in ASCII mode at {}", pos)),
            _ => return Err(format!("codeword {} is not defined in ASCII mode (at {})", c, pos)),
        }
    }
    if ended_in_ascii_data && s.d.end_form.is_none() {
        s.d.end_form = Some(EndForm::AsciiExact);
    }
    Ok(())
}

fn eci(s: &mut St) -> Result<u32, String> {
    let n = s.cw.len();
    if s.i >= n {
        return Err("ECI designator truncated".into());
    }
    let c1 = s.cw[s.i] as u32;
    s.i += 1;
    match c1 {
        1..=127 => Ok(c1 - 1),
        128..=191 => {
            if s.i >= n {
                return Err("ECI designator truncated".into());
            }
            let c2 = s.cw[s.i] as u32;
            s.i += 1;
            if !(1..=254).contains(&c2) {
                return Err(format!("ECI second codeword {}", c2));
            }
            Ok((c1 - 128) * 254 + 127 + c2 - 1)
        }
        192..=207 => {
            if s.i + 1 >= n {
                return Err("ECI designator truncated".into());
            }
            let (c2, c3) = (s.cw[s.i] as u32, s.cw[s.i + 1] as u32);
            s.i += 2;
            if !(1..=254).contains(&c2) || !(1..=254).contains(&c3) {
                return Err(format!("ECI codewords {} {}", c2, c3));
            }
            Ok((c1 - 192) * 64516 + 16383 + (c2 - 1) * 254 + c3 - 1)
        }
        _ => Err(format!("ECI first codeword {}", c1)),
    }
}

/// C40, Text and X12: pairs of codewords carrying three values
fn c40_like(s: &mut St, mode: Mode) -> Result<(), String> {
    let n = s.cw.len();
    let mut shift: u8 = 0; // 0 none, 1..3 pending shift set
    let mut upper = false;
    loop {
        let left = n - s.i;
        if left == 0 {
            // rule a): the run fills the symbol exactly
            s.d.end_form = Some(EndForm::TripleExact);
            finish_c40_run(s, mode, shift, upper, true)?;
            s.d.events.push(Ev::Return { from: mode, pos: n, implicit_rule: true });
            return Ok(());
        }
        if s.cw[s.i] == 254 {
            let pos = s.i;
            finish_c40_run(s, mode, shift, upper, false)?;
            s.i += 1;
            s.d.events.push(Ev::Unlatch { from: mode, pos });
            if left == 1 {
                s.d.l2_uses += 1;
                s.d.end_form = Some(EndForm::Trailing254);
            } else {
                s.d.end_form = None;
                // remember that an explicit unlatch was followed by the tail (rule c is recognised later)
                if n - s.i <= 2 {
                    s.d.end_form = Some(EndForm::UnlatchThenAsciiAtEnd);
                }
            }
            return Ok(());
        }
        if left == 1 {
            // rule d): a single remaining symbol character is ASCII encoded
            finish_c40_run(s, mode, shift, upper, false)?;
            s.d.events.push(Ev::Return { from: mode, pos: s.i, implicit_rule: true });
            s.d.end_form = Some(EndForm::ImplicitAsciiLast);
            return Ok(());
        }
        let pos = s.i;
        let v16 = (s.cw[pos] as u32) * 256 + s.cw[pos + 1] as u32;
        s.i += 2;
        if v16 == 0 {
            return Err(format!("{} pair (0,0) at {}", mode.name(), pos));
        }
        let v = v16 - 1;
        let vals = [(v / 1600) as u8, ((v / 40) % 40) as u8, (v % 40) as u8];
        if v / 1600 > 39 {
            return Err(format!("{} pair value {} out of range at {}", mode.name(), v16, pos));
        }
        for val in vals {
            if mode == Mode::X12 {
                let ch = x12_char(val).ok_or(format!("X12 value {} at {}", val, pos))?;
                s.out(Mode::X12, ch, pos);
                continue;
            }
            let text = mode == Mode::Text;
            match shift {
                0 => match val {
                    0..=2 => shift = val + 1,
                    3..=39 => {
                        let ch = if text { TEXT_BASE[val as usize - 3] } else { C40_BASE[val as usize - 3] };
                        emit_c40(s, mode, ch, &mut upper, pos);
                    }
                    _ => return Err(format!("{} value {}", mode.name(), val)),
                },
                1 => {
                    if val > 31 {
                        return Err(format!("{} shift-1 value {}", mode.name(), val));
                    }
                    emit_c40(s, mode, val, &mut upper, pos);
                    shift = 0;
                }
                2 => {
                    shift = 0;
                    if let Some(ch) = shift2_char(val) {
                        emit_c40(s, mode, ch, &mut upper, pos);
                    } else if val == 27 {
                        // FNC1 in C40/Text
                        s.d.events.push(Ev::Fnc1 { pos });
                        s.d.fnc1_inner += 1;
                        s.out(mode, 29, pos);
                    } else if val == 30 {
                        if upper {
                            return Err("double Upper Shift".into());
                        }
                        upper = true;
                    } else {
                        return Err(format!("{} shift-2 value {}", mode.name(), val));
                    }
                }
                _ => {
                    shift = 0;
                    let ch = shift3_char(val, text).ok_or(format!("{} shift-3 value {}", mode.name(), val))?;
                    emit_c40(s, mode, ch, &mut upper, pos);
                }
            }
        }
    }
}

fn emit_c40(s: &mut St, mode: Mode, ch: u8, upper: &mut bool, pos: usize) {
    let b = if *upper { ch.wrapping_add(128) } else { ch };
    *upper = false;
    s.out(mode, b, pos);
}

fn finish_c40_run(s: &mut St, mode: Mode, shift: u8, upper: bool, at_symbol_end: bool) -> Result<(), String> {
    let _ = mode;
    if shift == 1 && !upper && at_symbol_end {
        // rule b): two values followed by a pad Shift 1 fill the last two symbol characters
        s.d.end_form = Some(EndForm::TriplePadShift);
    } else if shift != 0 || upper {
        // dangling Shift / Upper Shift that completes the last triple of a run anywhere else, or with
        // another Shift value (this crate pads with Shift 2 (+ Upper Shift)): leniency L1
        s.d.l1_uses += 1;
        if at_symbol_end {
            s.d.end_form = Some(EndForm::TriplePadShift);
        }
    }
    Ok(())
}

fn edifact(s: &mut St) -> Result<(), String> {
    let n = s.cw.len();
    loop {
        let left = n - s.i;
        if left == 0 {
            s.d.end_form = Some(EndForm::EdifactExact);
            s.d.events.push(Ev::Return { from: Mode::Edifact, pos: n, implicit_rule: true });
            return Ok(());
        }
        if left <= 2 {
            // at a quadruple boundary with one or two symbol characters remaining: ASCII
            s.d.end_form = Some(EndForm::EdifactAsciiTail);
            s.d.events.push(Ev::Return { from: Mode::Edifact, pos: s.i, implicit_rule: true });
            return Ok(());
        }
        let pos = s.i;
        let bits = ((s.cw[pos] as u32) << 16) | ((s.cw[pos + 1] as u32) << 8) | s.cw[pos + 2] as u32;
        for k in 0..4 {
            let v = ((bits >> (18 - 6 * k)) & 0x3F) as u8;
            if v == 31 {
                // unlatch: ASCII resumes at the next codeword boundary
                let used = match k {
                    0 => 1,
                    1 => 2,
                    _ => 3,
                };
                s.d.events.push(Ev::Unlatch { from: Mode::Edifact, pos: pos + used - 1 });
                s.i = pos + used;
                s.d.end_form = None;
                return Ok(());
            }
            let ch = if v & 0x20 != 0 { v } else { v | 0x40 };
            s.out(Mode::Edifact, ch, pos);
        }
        s.i = pos + 3;
    }
}

fn base256(s: &mut St) -> Result<(), String> {
    let n = s.cw.len();
    if s.i >= n {
        return Err("Base 256 latch as last codeword".into());
    }
    let d1 = unrandomize_255(s.cw[s.i], s.i + 1) as usize;
    s.i += 1;
    let (len, to_end) = if d1 == 0 {
        (n - s.i, true)
    } else if d1 <= 249 {
        (d1, false)
    } else {
        if s.i >= n {
            return Err("Base 256 length truncated".into());
        }
        let d2 = unrandomize_255(s.cw[s.i], s.i + 1) as usize;
        s.i += 1;
        if d2 > 249 {
            return Err(format!("Base 256 second length byte {}", d2));
        }
        (250 * (d1 - 249) + d2, false)
    };
    if len > n - s.i {
        return Err(format!("Base 256 field of length {} exceeds the symbol", len));
    }
    if !to_end && len == 0 {
        return Err("Base 256 field of length 0 with two-byte length".into());
    }
    for _ in 0..len {
        let pos = s.i;
        let b = unrandomize_255(s.cw[pos], pos + 1);
        s.i += 1;
        s.out(Mode::Base256, b, pos);
    }
    s.d.events.push(Ev::Return { from: Mode::Base256, pos: s.i, implicit_rule: false });
    s.d.end_form = if to_end {
        Some(EndForm::Base256ToEnd)
    } else if s.i == n {
        Some(EndForm::Base256ExactExplicit)
    } else {
        None
    };
    Ok(())
}

/// length of the stream without pad codewords; None if R-DEC rejects the stream
pub fn unpadded_len(cw: &[u8]) -> Option<usize> {
    decode(cw).ok().map(|d| d.unpadded_len(cw.len()))
}

pub fn selftest() -> Result<(), String> {
    // ISO/IEC 16022 Annex O: "123456" -> 142 164 186
    let d = decode(&[142, 164, 186])?;
    if d.bytes != b"123456" {
        return Err("R-DEC: Annex O".into());
    }
    // 5.2.5 example: "AIM" in C40 = 230, 91, 11 (values 14 22 26 -> 1600*14+40*22+26+1 = 23307 = 91*256+11)
    let d = decode(&[230, 91, 11])?;
    if d.bytes != b"AIM" || d.latches != [Mode::C40] {
        return Err("R-DEC: C40 AIM".into());
    }
    // 5.2.8 example: "DATA" in EDIFACT = 240, 16, 21, 1
    let d = decode(&[240, 16, 21, 1])?;
    if d.bytes != b"DATA" {
        return Err(format!("R-DEC: EDIFACT DATA {:?}", d.bytes));
    }
    // pads: 129 then randomised
    let p = [66u8, 129, randomize_253(3), randomize_253(4), randomize_253(5)];
    let d = decode(&p)?;
    if d.bytes != b"A" || d.pad_start != Some(1) {
        return Err("R-DEC: pads".into());
    }
    if decode(&[66, 129, 129]).is_ok() {
        return Err("R-DEC: accepted unrandomised pad".into());
    }
    // known pad values from the standard's example of an empty 12x12 (129 175 70 220 115): positions 2.. => 175 70 220 115
    if [randomize_253(2), randomize_253(3), randomize_253(4), randomize_253(5)] != [175, 70, 220, 115] {
        return Err(format!("R-DEC: randomize_253 {:?}", [randomize_253(2), randomize_253(3), randomize_253(4), randomize_253(5)]));
    }
    Ok(())
}
