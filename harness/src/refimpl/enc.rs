//! R-ENC: a scripted ISO/IEC 16022 encoder. The caller chooses the segmentation of the input into
//! mode runs (the "program" of property C04) and the target capacity; R-ENC emits only forms the
//! standard spells out and refuses (Err) any script that is not legal for that capacity.
//! It is independent of the crate and deliberately *not* an optimiser.
use super::dec::{randomize_253, randomize_255, Mode};

#[derive(Clone, Copy, PartialEq, Eq, Debug)]
pub enum Header {
    None,
    Macro05,
    Macro06,
    Fnc1,
}

#[derive(Clone, Debug)]
pub struct Script {
    /// (mode, number of input characters); lengths must sum to the input length
    pub runs: Vec<(Mode, usize)>,
    pub header: Header,
    pub eci: Option<u32>,
    /// pair digits greedily inside ASCII runs
    pub pair_digits: bool,
    /// a final Base 256 run that fills the symbol uses the length-0 form
    pub b256_len0: bool,
    /// allow rule d) (single last symbol character in ASCII without Unlatch after C40/Text/X12)
    pub implicit_unlatch: bool,
    /// allow the implicit ASCII codeword to be a digit pair (decoders agree, standard speaks of one character)
    pub implicit_pair: bool,
    /// allow a lone 254 as the very last symbol character after a C40/Text/X12 run
    pub trailing_254: bool,
    /// number of data codewords of the target symbol
    pub cap: usize,
}

impl Script {
    pub fn describe(&self) -> String {
        let runs: Vec<String> = self.runs.iter().map(|(m, n)| format!("{}x{}", m.name(), n)).collect();
        format!("cap={} header={:?} eci={:?} pair={} len0={} implicit={} runs=[{}]", self.cap, self.header, self.eci, self.pair_digits, self.b256_len0, self.implicit_unlatch, runs.join(" "))
    }
}

#[derive(Clone, Debug, Default)]
pub struct Forms {
    pub tags: Vec<&'static str>,
}

pub fn eci_designator(n: u32) -> Vec<u8> {
    if n <= 126 {
        vec![(n + 1) as u8]
    } else if n <= 16382 {
        vec![((n - 127) / 254 + 128) as u8, ((n - 127) % 254 + 1) as u8]
    } else {
        vec![((n - 16383) / 64516 + 192) as u8, (((n - 16383) / 254) % 254 + 1) as u8, ((n - 16383) % 254 + 1) as u8]
    }
}

pub fn ascii_encode(chars: &[u8], pair: bool, out: &mut Vec<u8>) {
    let mut i = 0;
    while i < chars.len() {
        let c = chars[i];
        if pair && i + 1 < chars.len() && c.is_ascii_digit() && chars[i + 1].is_ascii_digit() {
            out.push(130 + (c - b'0') * 10 + (chars[i + 1] - b'0'));
            i += 2;
        } else if c < 128 {
            out.push(c + 1);
            i += 1;
        } else {
            out.push(235);
            out.push(c - 127);
            i += 1;
        }
    }
}

pub fn ascii_len(chars: &[u8], pair: bool) -> usize {
    let mut v = Vec::new();
    ascii_encode(chars, pair, &mut v);
    v.len()
}

/// C40 (text = false) or Text (text = true) values of one character
pub fn c40_values(c: u8, text: bool, out: &mut Vec<u8>) {
    if c >= 128 {
        out.push(1);
        out.push(30);
        return c40_values(c - 128, text, out);
    }
    let lower = c.is_ascii_lowercase();
    let upper = c.is_ascii_uppercase();
    match c {
        b' ' => out.push(3),
        b'0'..=b'9' => out.push(c - b'0' + 4),
        _ if (!text && upper) => out.push(c - b'A' + 14),
        _ if (text && lower) => out.push(c - b'a' + 14),
        0..=31 => {
            out.push(0);
            out.push(c);
        }
        33..=47 => {
            out.push(1);
            out.push(c - 33);
        }
        58..=64 => {
            out.push(1);
            out.push(c - 58 + 15);
        }
        91..=95 => {
            out.push(1);
            out.push(c - 91 + 22);
        }
        _ => {
            // shift 3 set
            out.push(2);
            if text {
                if upper {
                    out.push(c - b'A' + 1);
                } else {
                    // ` { | } ~ DEL
                    out.push(if c == 96 { 0 } else { c - 123 + 27 });
                }
            } else {
                out.push(c - 96);
            }
        }
    }
}

pub fn x12_value(c: u8) -> Option<u8> {
    match c {
        13 => Some(0),
        b'*' => Some(1),
        b'>' => Some(2),
        b' ' => Some(3),
        b'0'..=b'9' => Some(c - b'0' + 4),
        b'A'..=b'Z' => Some(c - b'A' + 14),
        _ => None,
    }
}

pub fn edifact_ok(c: u8) -> bool {
    (32..=94).contains(&c)
}

fn push_triple(out: &mut Vec<u8>, a: u8, b: u8, c: u8) {
    let v = 1600 * a as u32 + 40 * b as u32 + c as u32 + 1;
    out.push((v >> 8) as u8);
    out.push((v & 0xFF) as u8);
}

fn pack6(vals: &[u8], out: &mut Vec<u8>) {
    // vals: 1..=4 six-bit values; writes ceil(6*len/8) bytes, zero padded
    let mut bits: u32 = 0;
    for (i, v) in vals.iter().enumerate() {
        bits |= (*v as u32 & 0x3F) << (18 - 6 * i);
    }
    let nbytes = match vals.len() {
        1 => 1,
        2 => 2,
        _ => 3,
    };
    for k in 0..nbytes {
        out.push((bits >> (16 - 8 * k)) as u8);
    }
}

pub fn encode(input: &[u8], sc: &Script) -> Result<(Vec<u8>, Forms), String> {
    let total: usize = sc.runs.iter().map(|r| r.1).sum();
    if total != input.len() {
        return Err("script does not cover the input".into());
    }
    // an empty run (latch with no character of that mode) is only accepted directly in front of the final
    // ASCII run, where the end-of-symbol rules hand the remaining symbol characters to ASCII
    for (k, r) in sc.runs.iter().enumerate() {
        if r.1 == 0 && !(k + 2 == sc.runs.len() && sc.runs[k + 1].0 == Mode::Ascii && matches!(r.0, Mode::C40 | Mode::Text | Mode::X12 | Mode::Edifact)) {
            return Err("empty run".into());
        }
    }
    for w in sc.runs.windows(2) {
        if w[0].0 == w[1].0 && w[0].0 != Mode::Base256 && w[0].0 != Mode::Ascii {
            return Err("adjacent runs in the same mode".into());
        }
    }
    let cap = sc.cap;
    let mut forms = Forms::default();
    let mut out: Vec<u8> = Vec::with_capacity(cap);
    match sc.header {
        Header::None => {}
        Header::Macro05 => out.push(236),
        Header::Macro06 => out.push(237),
        Header::Fnc1 => out.push(232),
    }
    if let Some(n) = sc.eci {
        out.push(241);
        out.extend(eci_designator(n));
    }
    let nruns = sc.runs.len();
    let mut off = 0usize;
    let mut in_ascii = true; // context after the run
    for (k, (mode, len)) in sc.runs.iter().enumerate() {
        let chars = &input[off..off + len];
        let rest = &input[off + len..];
        let is_last = k + 1 == nruns;
        let next_is_final_ascii = k + 2 == nruns && sc.runs[k + 1].0 == Mode::Ascii;
        off += len;
        if out.len() > cap {
            return Err("over capacity".into());
        }
        match mode {
            Mode::Ascii => {
                ascii_encode(chars, sc.pair_digits, &mut out);
                in_ascii = true;
            }
            Mode::C40 | Mode::Text | Mode::X12 => {
                out.push(mode.latch());
                let mut vals: Vec<u8> = Vec::new();
                for c in chars {
                    if *mode == Mode::X12 {
                        vals.push(x12_value(*c).ok_or("character not in the X12 set")?);
                    } else {
                        c40_values(*c, *mode == Mode::Text, &mut vals);
                    }
                }
                let r = vals.len() % 3;
                let full = vals.len() - r;
                for t in vals[..full].chunks(3) {
                    push_triple(&mut out, t[0], t[1], t[2]);
                }
                if out.len() > cap {
                    return Err("over capacity".into());
                }
                let space = cap - out.len();
                if r != 0 {
                    // only rule b): two values left, two symbol characters left, end of data
                    if is_last && r == 2 && space == 2 && *mode != Mode::X12 {
                        push_triple(&mut out, vals[full], vals[full + 1], 0);
                        forms.tags.push("c40_rule_b_pad_shift1");
                        in_ascii = false;
                        continue;
                    }
                    return Err("C40/Text/X12 run does not end on a triple boundary".into());
                }
                if is_last {
                    if space == 0 {
                        forms.tags.push("c40_rule_a_exact");
                        in_ascii = false;
                    } else if space == 1 {
                        if !sc.trailing_254 {
                            return Err("trailing 254 not allowed by the script".into());
                        }
                        out.push(254);
                        forms.tags.push("c40_trailing_254");
                        in_ascii = true;
                    } else {
                        out.push(254);
                        forms.tags.push("c40_unlatch_then_pad");
                        in_ascii = true;
                    }
                } else {
                    // rule d): one symbol character left and the rest is one ASCII codeword
                    // rule d) literally: "one symbol character remains and one C40 value (data character) remains"
                    let single_value = rest.len() == 1 && rest[0] < 128 && {
                        let mut v = Vec::new();
                        if *mode == Mode::X12 {
                            if x12_value(rest[0]).is_some() {
                                v.push(0);
                            } else {
                                v.extend_from_slice(&[0, 0]);
                            }
                        } else {
                            c40_values(rest[0], *mode == Mode::Text, &mut v);
                        }
                        v.len() == 1
                    };
                    let rest_one = next_is_final_ascii && ascii_len(rest, sc.pair_digits) == 1 && (single_value || (sc.implicit_pair && rest.len() == 2));
                    if sc.implicit_unlatch && space == 1 && rest_one {
                        forms.tags.push("c40_rule_d_implicit_unlatch");
                    } else {
                        out.push(254);
                        if next_is_final_ascii && space == 2 && ascii_len(rest, sc.pair_digits) == 1 {
                            forms.tags.push("c40_rule_c_unlatch_ascii_at_end");
                        }
                    }
                    in_ascii = true;
                }
            }
            Mode::Edifact => {
                out.push(240);
                if chars.iter().any(|c| !edifact_ok(*c)) {
                    return Err("character not in the EDIFACT set".into());
                }
                let vals: Vec<u8> = chars.iter().map(|c| c & 0x3F).collect();
                let q = vals.len() / 4 * 4;
                for g in vals[..q].chunks(4) {
                    if cap < out.len() + 3 {
                        return Err("over capacity".into());
                    }
                    pack6(g, &mut out);
                }
                let r = vals.len() - q;
                let space = cap.checked_sub(out.len()).ok_or("over capacity")?;
                if r == 0 {
                    if is_last && space == 0 {
                        forms.tags.push("edifact_exact_end");
                        in_ascii = false;
                        continue;
                    }
                    if space <= 2 {
                        // <= 2 symbol characters remain at a quadruple boundary: they are ASCII, no Unlatch
                        if is_last {
                            forms.tags.push("edifact_then_pad_in_ascii_tail");
                        } else if next_is_final_ascii && ascii_len(rest, sc.pair_digits) <= space {
                            forms.tags.push("edifact_ascii_tail");
                        } else {
                            return Err("EDIFACT: no room for Unlatch".into());
                        }
                        in_ascii = true;
                        continue;
                    }
                    pack6(&[31], &mut out);
                    forms.tags.push("edifact_unlatch_slot0");
                } else {
                    // partial quadruple closed by the Unlatch value; needs >= 3 symbol characters at its start
                    if space < 3 {
                        return Err("EDIFACT: partial quadruple with fewer than 3 symbol characters left".into());
                    }
                    let mut g = vals[q..].to_vec();
                    g.push(31);
                    pack6(&g, &mut out);
                    forms.tags.push(match r {
                        1 => "edifact_unlatch_slot1",
                        2 => "edifact_unlatch_slot2",
                        _ => "edifact_unlatch_slot3",
                    });
                }
                in_ascii = true;
            }
            Mode::Base256 => {
                out.push(231);
                let start = out.len();
                let n = chars.len();
                if is_last && sc.b256_len0 {
                    if out.len() + 1 + n != cap {
                        return Err("Base 256 length 0 needs the field to end the symbol".into());
                    }
                    out.push(0);
                    forms.tags.push("b256_len0");
                } else if n <= 249 {
                    out.push(n as u8);
                    forms.tags.push(if n == 249 { "b256_len249" } else { "b256_len1byte" });
                } else if n <= 1555 {
                    out.push((n / 250 + 249) as u8);
                    out.push((n % 250) as u8);
                    forms.tags.push(if n == 250 { "b256_len250" } else if n == 1555 { "b256_len1555" } else { "b256_len2byte" });
                } else {
                    return Err("Base 256 field longer than 1555".into());
                }
                out.extend_from_slice(chars);
                for i in start..out.len() {
                    out[i] = randomize_255(out[i], i + 1);
                }
                in_ascii = true;
                if is_last && out.len() == cap && !sc.b256_len0 {
                    forms.tags.push("b256_explicit_exact_end");
                }
            }
        }
    }
    if out.len() > cap {
        return Err("over capacity".into());
    }
    if out.len() < cap {
        if !in_ascii {
            return Err("padding needed but not in ASCII context".into());
        }
        out.push(129);
        while out.len() < cap {
            let p = out.len() + 1;
            out.push(randomize_253(p));
        }
        forms.tags.push("padded");
    } else {
        forms.tags.push("exact_fill");
    }
    Ok((out, forms))
}

pub fn selftest() -> Result<(), String> {
    use super::dec;
    let base = Script { runs: vec![], header: Header::None, eci: None, pair_digits: true, b256_len0: false, implicit_unlatch: true, implicit_pair: false, trailing_254: false, cap: 0 };
    // Annex O
    let (w, _) = encode(b"123456", &Script { runs: vec![(Mode::Ascii, 6)], cap: 3, ..base.clone() })?;
    if w != [142, 164, 186] {
        return Err("R-ENC: Annex O".into());
    }
    let (w, _) = encode(b"AIM", &Script { runs: vec![(Mode::C40, 3)], cap: 3, ..base.clone() })?;
    if w != [230, 91, 11] {
        return Err(format!("R-ENC: C40 AIM {:?}", w));
    }
    let (w, _) = encode(b"DATA", &Script { runs: vec![(Mode::Edifact, 4)], cap: 5, ..base.clone() })?;
    if w[..4] != [240, 16, 21, 1] {
        return Err(format!("R-ENC: EDIFACT DATA {:?}", w));
    }
    // every byte value through every mode that can carry it, decoded by R-DEC
    for c in 0..=255u8 {
        for mode in Mode::ALL {
            let input = [c, c, c, c, c, c, c, c, c, c, c, c];
            let sc = Script { runs: vec![(mode, 12), (Mode::Ascii, 1)], cap: 144, ..base.clone() };
            let mut inp = input.to_vec();
            inp.push(b'Z');
            let sc = if mode == Mode::Ascii { Script { runs: vec![(Mode::Ascii, 13)], ..sc } } else { sc };
            match encode(&inp, &sc) {
                Ok((w, _)) => {
                    let d = dec::decode(&w).map_err(|e| format!("R-DEC rejects R-ENC output for byte {} in {}: {}", c, mode.name(), e))?;
                    if d.bytes != inp {
                        return Err(format!("R-DEC(R-ENC) != id for byte {} in {}", c, mode.name()));
                    }
                }
                Err(_) => {
                    let legal = match mode {
                        Mode::X12 => x12_value(c).is_some(),
                        Mode::Edifact => edifact_ok(c),
                        _ => true,
                    };
                    if legal {
                        return Err(format!("R-ENC refused byte {} in {}", c, mode.name()));
                    }
                }
            }
        }
    }
    Ok(())
}
