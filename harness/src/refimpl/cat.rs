//! R-CAT: the 48 ECC 200 symbol attributes, typed from ISO/IEC 16022:2006 Table 7 and
//! ISO/IEC 21471:2020 Table 1. Shares nothing with the crate but the *names* of the public
//! `SymbolSize` variants (the variant name states rows x columns; that is the API contract).
use datamatrix::SymbolSize;

#[derive(Clone, Copy, Debug)]
pub struct Row {
    pub size: SymbolSize,
    pub name: &'static str,
    pub rows: usize,
    pub cols: usize,
    /// number of data regions vertically (region rows) and horizontally (region columns)
    pub reg_v: usize,
    pub reg_h: usize,
    pub data: usize,
    pub ecc: usize,
    pub blocks: usize,
    /// true for the 30 sizes of ISO/IEC 16022, false for the 18 DMRE sizes of ISO/IEC 21471
    pub iso16022: bool,
}

macro_rules! row {
    ($v:ident, $r:expr, $c:expr, $rv:expr, $rh:expr, $d:expr, $e:expr, $b:expr, $iso:expr) => {
        Row { size: SymbolSize::$v, name: stringify!($v), rows: $r, cols: $c, reg_v: $rv, reg_h: $rh, data: $d, ecc: $e, blocks: $b, iso16022: $iso }
    };
}

pub const CAT: [Row; 48] = [
    // ISO/IEC 16022 Table 7, square symbols
    row!(Square10, 10, 10, 1, 1, 3, 5, 1, true),
    row!(Square12, 12, 12, 1, 1, 5, 7, 1, true),
    row!(Square14, 14, 14, 1, 1, 8, 10, 1, true),
    row!(Square16, 16, 16, 1, 1, 12, 12, 1, true),
    row!(Square18, 18, 18, 1, 1, 18, 14, 1, true),
    row!(Square20, 20, 20, 1, 1, 22, 18, 1, true),
    row!(Square22, 22, 22, 1, 1, 30, 20, 1, true),
    row!(Square24, 24, 24, 1, 1, 36, 24, 1, true),
    row!(Square26, 26, 26, 1, 1, 44, 28, 1, true),
    row!(Square32, 32, 32, 2, 2, 62, 36, 1, true),
    row!(Square36, 36, 36, 2, 2, 86, 42, 1, true),
    row!(Square40, 40, 40, 2, 2, 114, 48, 1, true),
    row!(Square44, 44, 44, 2, 2, 144, 56, 1, true),
    row!(Square48, 48, 48, 2, 2, 174, 68, 1, true),
    row!(Square52, 52, 52, 2, 2, 204, 84, 2, true),
    row!(Square64, 64, 64, 4, 4, 280, 112, 2, true),
    row!(Square72, 72, 72, 4, 4, 368, 144, 4, true),
    row!(Square80, 80, 80, 4, 4, 456, 192, 4, true),
    row!(Square88, 88, 88, 4, 4, 576, 224, 4, true),
    row!(Square96, 96, 96, 4, 4, 696, 272, 4, true),
    row!(Square104, 104, 104, 4, 4, 816, 336, 6, true),
    row!(Square120, 120, 120, 6, 6, 1050, 408, 6, true),
    row!(Square132, 132, 132, 6, 6, 1304, 496, 8, true),
    row!(Square144, 144, 144, 6, 6, 1558, 620, 10, true),
    // ISO/IEC 16022 Table 7, rectangular symbols
    row!(Rect8x18, 8, 18, 1, 1, 5, 7, 1, true),
    row!(Rect8x32, 8, 32, 1, 2, 10, 11, 1, true),
    row!(Rect12x26, 12, 26, 1, 1, 16, 14, 1, true),
    row!(Rect12x36, 12, 36, 1, 2, 22, 18, 1, true),
    row!(Rect16x36, 16, 36, 1, 2, 32, 24, 1, true),
    row!(Rect16x48, 16, 48, 1, 2, 49, 28, 1, true),
    // ISO/IEC 21471 (DMRE)
    row!(Rect8x48, 8, 48, 1, 2, 18, 15, 1, false),
    row!(Rect8x64, 8, 64, 1, 4, 24, 18, 1, false),
    row!(Rect8x80, 8, 80, 1, 4, 32, 22, 1, false),
    row!(Rect8x96, 8, 96, 1, 4, 38, 28, 1, false),
    row!(Rect8x120, 8, 120, 1, 6, 49, 32, 1, false),
    row!(Rect8x144, 8, 144, 1, 6, 63, 36, 1, false),
    row!(Rect12x64, 12, 64, 1, 4, 43, 27, 1, false),
    row!(Rect12x88, 12, 88, 1, 4, 64, 36, 1, false),
    row!(Rect16x64, 16, 64, 1, 4, 62, 36, 1, false),
    row!(Rect20x36, 20, 36, 1, 2, 44, 28, 1, false),
    row!(Rect20x44, 20, 44, 1, 2, 56, 34, 1, false),
    row!(Rect20x64, 20, 64, 1, 4, 84, 42, 1, false),
    row!(Rect22x48, 22, 48, 1, 2, 72, 38, 1, false),
    row!(Rect24x48, 24, 48, 1, 2, 80, 41, 1, false),
    row!(Rect24x64, 24, 64, 1, 4, 108, 46, 1, false),
    row!(Rect26x40, 26, 40, 1, 2, 70, 38, 1, false),
    row!(Rect26x48, 26, 48, 1, 2, 90, 42, 1, false),
    row!(Rect26x64, 26, 64, 1, 4, 118, 50, 1, false),
];

impl Row {
    /// error codewords per interleaved block
    pub fn k(&self) -> usize {
        self.ecc / self.blocks
    }
    pub fn total(&self) -> usize {
        self.data + self.ecc
    }
    /// mapping matrix dimensions (data modules only)
    pub fn map_rows(&self) -> usize {
        self.rows - 2 * self.reg_v
    }
    pub fn map_cols(&self) -> usize {
        self.cols - 2 * self.reg_h
    }
    /// data region dimensions in modules
    pub fn reg_rows(&self) -> usize {
        self.map_rows() / self.reg_v
    }
    pub fn reg_cols(&self) -> usize {
        self.map_cols() / self.reg_h
    }
    pub fn is_square(&self) -> bool {
        self.rows == self.cols
    }
    /// the four symbols whose mapping matrix has a left-over 2x2 corner
    pub fn has_corner_pattern(&self) -> bool {
        self.map_rows() * self.map_cols() % 8 == 4
    }
    /// data codewords in interleaved block b (144x144: 156 for the first 8, 155 for the last 2)
    pub fn block_data_len(&self, b: usize) -> usize {
        (self.data + self.blocks - 1 - b) / self.blocks
    }
    /// positions (in the full codeword vector) of block b: data b, b+B, .. then ecc b, b+B, ..
    pub fn block_positions(&self, b: usize) -> Vec<usize> {
        let mut v: Vec<usize> = (b..self.data).step_by(self.blocks).collect();
        v.extend((b..self.ecc).step_by(self.blocks).map(|i| self.data + i));
        v
    }
}

pub fn row_of(size: SymbolSize) -> &'static Row {
    CAT.iter().find(|r| r.size == size).expect("size in catalogue")
}

pub fn by_name(name: &str) -> Option<&'static Row> {
    CAT.iter().find(|r| r.name == name)
}

/// indices into CAT sorted by (data capacity, then as the crate documents: smaller first) — only
/// the capacity component is the standard's; ties are not ordered by R-CAT.
pub fn by_capacity() -> Vec<usize> {
    let mut v: Vec<usize> = (0..48).collect();
    v.sort_by_key(|i| CAT[*i].data);
    v
}

pub fn selftest() -> Result<(), String> {
    let mut dims = std::collections::HashSet::new();
    for r in CAT.iter() {
        let modules = r.map_rows() * r.map_cols();
        let want = 8 * r.total() + if r.has_corner_pattern() { 4 } else { 0 };
        if modules != want {
            return Err(format!("R-CAT {}: {} modules vs 8*{}", r.name, modules, r.total()));
        }
        if r.ecc % r.blocks != 0 || r.map_rows() % r.reg_v != 0 || r.map_cols() % r.reg_h != 0 {
            return Err(format!("R-CAT {}: indivisible", r.name));
        }
        if !dims.insert((r.rows, r.cols)) {
            return Err(format!("R-CAT {}: duplicate dims", r.name));
        }
        let expect_name = if r.rows == r.cols { format!("Square{}", r.rows) } else { format!("Rect{}x{}", r.rows, r.cols) };
        if expect_name != r.name {
            return Err(format!("R-CAT {}: name/dims mismatch", r.name));
        }
        let s: usize = (0..r.blocks).map(|b| r.block_data_len(b)).sum();
        if s != r.data {
            return Err(format!("R-CAT {}: block lens", r.name));
        }
    }
    if CAT.iter().filter(|r| r.iso16022).count() != 30 {
        return Err("R-CAT: not 30 ISO 16022 sizes".into());
    }
    let pats: Vec<&str> = CAT.iter().filter(|r| r.has_corner_pattern()).map(|r| r.name).collect();
    if pats != ["Square12", "Square16", "Square20", "Square24"] {
        return Err(format!("R-CAT: corner pattern sizes {:?}", pats));
    }
    Ok(())
}
