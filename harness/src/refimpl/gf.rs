//! R-GF / R-RS: GF(256) modulo x^8+x^5+x^3+x^2+1 (0x12D) by shift-and-xor (no tables),
//! generator polynomials computed as prod (x - 2^i), syndromes by Horner.
use super::cat::Row;

pub fn mul(mut a: u8, mut b: u8) -> u8 {
    let mut r = 0u8;
    while b != 0 {
        if b & 1 != 0 {
            r ^= a;
        }
        let hi = a & 0x80 != 0;
        a <<= 1;
        if hi {
            a ^= 0x2D; // 0x12D without the x^8 term
        }
        b >>= 1;
    }
    r
}

pub fn pow2(e: usize) -> u8 {
    let mut r = 1u8;
    for _ in 0..e {
        r = mul(r, 2);
    }
    r
}

pub fn inv(a: u8) -> u8 {
    // a^254 = a^-1 in GF(256)
    let mut r = 1u8;
    let mut b = a;
    let mut e = 254u32;
    while e > 0 {
        if e & 1 == 1 {
            r = mul(r, b);
        }
        b = mul(b, b);
        e >>= 1;
    }
    r
}

/// solve the square system m * x = rhs over GF(256) by Gaussian elimination; None if singular
pub fn solve(mut m: Vec<Vec<u8>>, mut rhs: Vec<u8>) -> Option<Vec<u8>> {
    let n = rhs.len();
    for col in 0..n {
        let piv = (col..n).find(|r| m[*r][col] != 0)?;
        m.swap(col, piv);
        rhs.swap(col, piv);
        let iv = inv(m[col][col]);
        for j in col..n {
            m[col][j] = mul(m[col][j], iv);
        }
        rhs[col] = mul(rhs[col], iv);
        for r in 0..n {
            if r != col && m[r][col] != 0 {
                let f = m[r][col];
                for j in col..n {
                    let t = mul(f, m[col][j]);
                    m[r][j] ^= t;
                }
                rhs[r] ^= mul(f, rhs[col]);
            }
        }
    }
    Some(rhs)
}

/// coefficients of prod_{i=1..k} (x - 2^i), highest degree first (g[0] = 1)
pub fn generator(k: usize) -> Vec<u8> {
    let mut g = vec![1u8];
    for i in 1..=k {
        let root = pow2(i);
        let mut n = vec![0u8; g.len() + 1];
        for (j, c) in g.iter().enumerate() {
            n[j] ^= *c; // times x
            n[j + 1] ^= mul(*c, root); // times root (minus = plus)
        }
        g = n;
    }
    g
}

/// S_j = r(2^j), j = 1..k, where word[0] is the highest-degree coefficient
pub fn syndromes(word: &[u8], k: usize) -> Vec<u8> {
    (1..=k)
        .map(|j| {
            let x = pow2(j);
            let mut acc = 0u8;
            for c in word {
                acc = mul(acc, x) ^ *c;
            }
            acc
        })
        .collect()
}

/// remainder of d(x) * x^k modulo g (the k check symbols of one block)
pub fn parity(data: &[u8], k: usize) -> Vec<u8> {
    let g = generator(k);
    let mut rem = vec![0u8; k];
    for d in data {
        let f = rem[0] ^ *d;
        for j in 0..k - 1 {
            rem[j] = rem[j + 1] ^ mul(f, g[j + 1]);
        }
        rem[k - 1] = mul(f, g[k]);
    }
    rem
}

/// k data codewords (to be placed at the END of a block's data) whose parity is exactly `target` (k values):
/// find m with (m*g) mod x^k = target, then data = (m*g - target) / x^k. Triangular because g(0) != 0.
pub fn data_for_parity(k: usize, target: &[u8]) -> Vec<u8> {
    let g = generator(k); // highest first: g[0] = 1 (x^k) ... g[k] = constant term
    let gc = |i: usize| -> u8 { if i <= k { g[k - i] } else { 0 } }; // coefficient of x^i
    let tc = |i: usize| -> u8 { target[k - 1 - i] }; // target given highest degree first (x^{k-1} .. x^0)
    let g0inv = inv(gc(0));
    let mut m = vec![0u8; k]; // m[j] = coefficient of x^j
    for i in 0..k {
        let mut acc = tc(i);
        for j in 0..i {
            acc ^= mul(m[j], gc(i - j));
        }
        m[i] = mul(acc, g0inv);
    }
    // product coefficients of degree k..2k-1
    let mut d = vec![0u8; k]; // d[t] = coefficient of x^(k+t)
    for (t, dt) in d.iter_mut().enumerate() {
        let deg = k + t;
        let mut acc = 0u8;
        for (j, mj) in m.iter().enumerate() {
            if deg >= j {
                acc ^= mul(*mj, gc(deg - j));
            }
        }
        *dt = acc;
    }
    d.reverse(); // highest degree first
    d
}

/// cached variant for bulk use. The per-constant product tables are filled at run time with the
/// shift-and-xor `mul` above (nothing tabulated in the source).
pub struct Rs {
    pub k: usize,
    gtab: Vec<[u8; 256]>,
    rtab: Vec<[u8; 256]>,
}

fn table_for(c: u8) -> [u8; 256] {
    let mut t = [0u8; 256];
    for (i, e) in t.iter_mut().enumerate() {
        *e = mul(c, i as u8);
    }
    t
}

impl Rs {
    pub fn new(k: usize) -> Rs {
        let g = generator(k);
        Rs { k, gtab: g.iter().map(|c| table_for(*c)).collect(), rtab: (1..=k).map(|i| table_for(pow2(i))).collect() }
    }
    pub fn parity(&self, data: impl Iterator<Item = u8>) -> Vec<u8> {
        let k = self.k;
        let mut rem = vec![0u8; k];
        for d in data {
            let f = (rem[0] ^ d) as usize;
            for j in 0..k - 1 {
                rem[j] = rem[j + 1] ^ self.gtab[j + 1][f];
            }
            rem[k - 1] = self.gtab[k][f];
        }
        rem
    }
    /// true iff all k syndromes of the word vanish
    pub fn is_codeword(&self, word: impl Iterator<Item = u8> + Clone) -> bool {
        self.first_bad_syndrome(word).is_none()
    }
    pub fn first_bad_syndrome(&self, word: impl Iterator<Item = u8> + Clone) -> Option<usize> {
        self.rtab.iter().position(|t| {
            let mut acc = 0u8;
            for c in word.clone() {
                acc = t[acc as usize] ^ c;
            }
            acc != 0
        })
    }
    pub fn syndromes(&self, word: impl Iterator<Item = u8> + Clone) -> Vec<u8> {
        self.rtab
            .iter()
            .map(|t| {
                let mut acc = 0u8;
                for c in word.clone() {
                    acc = t[acc as usize] ^ c;
                }
                acc
            })
            .collect()
    }
}

/// error codewords for a full data vector of a symbol, interleaved as the standard prescribes
pub fn encode_symbol(row: &Row, data: &[u8]) -> Vec<u8> {
    assert_eq!(data.len(), row.data);
    let rs = Rs::new(row.k());
    let mut ecc = vec![0u8; row.ecc];
    for b in 0..row.blocks {
        let p = rs.parity((b..row.data).step_by(row.blocks).map(|i| data[i]));
        for (j, v) in p.iter().enumerate() {
            ecc[b + j * row.blocks] = *v;
        }
    }
    ecc
}

/// index of the first block of the full codeword vector whose syndromes do not all vanish
pub fn first_bad_block(row: &Row, rs: &Rs, cw: &[u8]) -> Option<(usize, usize)> {
    for b in 0..row.blocks {
        let pos = row.block_positions(b);
        if let Some(j) = rs.first_bad_syndrome(pos.iter().map(|p| cw[*p])) {
            return Some((b, j + 1));
        }
    }
    None
}

pub fn selftest() -> Result<(), String> {
    // field sanity: 2 generates the multiplicative group, order 255
    let mut seen = [false; 256];
    let mut x = 1u8;
    for _ in 0..255 {
        if seen[x as usize] {
            return Err("R-GF: 2 is not primitive".into());
        }
        seen[x as usize] = true;
        x = mul(x, 2);
    }
    if x != 1 {
        return Err("R-GF: 2^255 != 1".into());
    }
    if mul(0x80, 2) != 0x2D {
        return Err("R-GF: reduction".into());
    }
    // ISO/IEC 16022 Annex O worked example: "123456" -> 142 164 186 | 114 25 5 88 102
    let p = parity(&[142, 164, 186], 5);
    if p != [114, 25, 5, 88, 102] {
        return Err(format!("R-RS: Annex O parity {:?}", p));
    }
    // generator polynomial for 5 check symbols as printed in the standard (Annex E)
    if generator(5) != [1, 62, 111, 15, 48, 228] {
        return Err(format!("R-RS: g5 {:?}", generator(5)));
    }
    for k in [5usize, 12, 68] {
        let mut target = vec![0u8; k];
        target[0] = 41;
        let d = data_for_parity(k, &target);
        if parity(&d, k) != target {
            return Err(format!("R-RS: data_for_parity k={}", k));
        }
    }
    for k in [5usize, 7, 10, 11, 12, 14, 15, 18, 20, 22, 24, 27, 28, 32, 34, 36, 38, 41, 42, 46, 48, 50, 56, 62, 68] {
        let data: Vec<u8> = (0..40).map(|i| (i * 37 + k) as u8).collect();
        let mut w = data.clone();
        w.extend(parity(&data, k));
        if syndromes(&w, k).iter().any(|s| *s != 0) {
            return Err(format!("R-RS: syndromes of own parity, k={}", k));
        }
        w[3] ^= 1;
        if syndromes(&w, k).iter().all(|s| *s == 0) {
            return Err(format!("R-RS: corrupted word has zero syndromes, k={}", k));
        }
    }
    Ok(())
}
