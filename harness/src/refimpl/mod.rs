pub mod cat;
pub mod charset;
pub mod dec;
pub mod enc;
pub mod gf;
pub mod opt;
pub mod place;
pub mod raster;
