#![allow(dead_code, unused_mut)]
//! dmv — runtime monitors for datamatrix-rs. See /verif/DESIGN.md.
//!
//!   dmv run <Cxx> --tier quick|thorough --seed N --shard i/n --build NAME --out FILE [--keys FILE] [--regress FILE]
//!   dmv replay <Cxx> --case '<flat case>'
//!   dmv selftest
//!   dmv distinct FILE...
mod alloc_guard;
mod ctx;
mod gen;
mod json;
mod mon;
mod refimpl;
mod rng;
mod util;

use ctx::{Case, Ctx, Tier};
use std::io::Write;

fn run_monitor(c: &mut Ctx) -> bool {
    match c.prop.as_str() {
        "C01" => mon::c01::run(c),
        "C02" => mon::c02::run(c),
        "C03" => mon::c03::run(c),
        "C04" => mon::c04::run(c),
        "C05" => mon::c05::run(c),
        "C06" => mon::c06::run(c),
        "C07" => mon::c07::run(c),
        "C08" => mon::c08::run(c),
        "C09" => mon::c09::run(c),
        "C10" => mon::c10::run(c),
        "C11" => mon::c11::run(c),
        "C12" => mon::c12::run(c),
        "C13" => mon::c13::run(c),
        "C14" => mon::c14::run(c),
        "C15" => mon::c15::run(c),
        "C16" => mon::c16::run(c),
        "C17" => mon::c17::run(c),
        "C18" => mon::c18::run(c),
        "C19" => mon::c19::run(c),
        _ => return false,
    }
    true
}

fn replay_case(c: &mut Ctx, case: &Case) -> bool {
    match c.prop.as_str() {
        "C01" => mon::c01::replay(c, case),
        "C02" => mon::c02::replay(c, case),
        "C03" => mon::c03::replay(c, case),
        "C04" => mon::c04::replay(c, case),
        "C05" => mon::c05::replay(c, case),
        "C06" => mon::c06::replay(c, case),
        "C07" => mon::c07::replay(c, case),
        "C08" => mon::c08::replay(c, case),
        "C09" => mon::c09::replay(c, case),
        "C10" => mon::c10::replay(c, case),
        "C11" => mon::c11::replay(c, case),
        "C12" => mon::c12::replay(c, case),
        "C13" => mon::c13::replay(c, case),
        "C14" => mon::c14::replay(c, case),
        "C15" => mon::c15::replay(c, case),
        "C16" => mon::c16::replay(c, case),
        "C17" => mon::c17::replay(c, case),
        "C18" => mon::c18::replay(c, case),
        "C19" => mon::c19::replay(c, case),
        _ => return false,
    }
    true
}

fn selftest() -> Result<(), String> {
    refimpl::cat::selftest()?;
    refimpl::gf::selftest()?;
    refimpl::place::selftest()?;
    refimpl::dec::selftest()?;
    refimpl::enc::selftest()?;
    refimpl::charset::selftest()?;
    refimpl::opt::selftest()?;
    Ok(())
}

fn arg<'a>(args: &'a [String], name: &str) -> Option<&'a str> {
    args.iter().position(|a| a == name).and_then(|i| args.get(i + 1)).map(|s| s.as_str())
}

#[global_allocator]
static ALLOC: alloc_guard::Guard = alloc_guard::Guard;

fn main() {
    let args: Vec<String> = std::env::args().collect();
    ctx::install_panic_hook();
    match args.get(1).map(|s| s.as_str()) {
        Some("selftest") => match selftest() {
            Ok(()) => println!("selftest ok"),
            Err(e) => {
                println!("selftest FAILED: {}", e);
                std::process::exit(2);
            }
        },
        Some("run") => {
            let prop = args.get(2).cloned().unwrap_or_default();
            let tier = if arg(&args, "--tier") == Some("thorough") { Tier::Thorough } else { Tier::Quick };
            let seed: u64 = arg(&args, "--seed").and_then(|s| s.parse().ok()).unwrap_or(1);
            let (shard, nshards) = arg(&args, "--shard").and_then(|s| s.split_once('/')).map(|(a, b)| (a.parse().unwrap_or(0), b.parse().unwrap_or(1))).unwrap_or((0, 1));
            let build = arg(&args, "--build").unwrap_or("release");
            let mut c = Ctx::new(&prop, tier, seed, shard, nshards, build);
            if let Some(mb) = arg(&args, "--mem-mb").and_then(|s| s.parse().ok()) {
                alloc_guard::set_limit_mb(mb);
            }
            let hang_secs: u64 = arg(&args, "--hang-secs").and_then(|s| s.parse().ok()).unwrap_or(180);
            ctx::start_watchdog(arg(&args, "--out").map(|s| s.to_string()), prop.clone(), hang_secs);
            // pinned regression cases first (shard 0 only)
            if let Some(f) = arg(&args, "--regress") {
                if shard == 0 {
                    if let Ok(text) = std::fs::read_to_string(f) {
                        for line in text.lines().filter(|l| !l.trim().is_empty()) {
                            match Case::parse(line) {
                                Some(case) => {
                                    replay_case(&mut c, &case);
                                    c.count("regression_cases_replayed");
                                }
                                None => c.harness_error(format!("unparsable regression case: {}", line)),
                            }
                        }
                    }
                }
            }
            if !run_monitor(&mut c) {
                eprintln!("unknown property {}", prop);
                std::process::exit(2);
            }
            ctx::watchdog_off();
            c.max("peak_heap_mb_of_a_shard", (alloc_guard::peak_bytes() >> 20) as u64);
            if let Some(f) = arg(&args, "--keys") {
                let mut keys: Vec<u64> = c.nontrivial.iter().copied().collect();
                keys.sort_unstable();
                let mut out = std::io::BufWriter::new(std::fs::File::create(f).expect("keys file"));
                for k in keys {
                    out.write_all(&k.to_le_bytes()).unwrap();
                }
            }
            let j = c.to_json().render();
            match arg(&args, "--out") {
                Some(f) => std::fs::write(f, j).expect("write out"),
                None => println!("{}", j),
            }
        }
        Some("replay") => {
            let prop = args.get(2).cloned().unwrap_or_default();
            let build = arg(&args, "--build").unwrap_or("release");
            let mut c = Ctx::new(&prop, Tier::Quick, 1, 0, 1, build);
            let Some(case) = arg(&args, "--case").and_then(Case::parse) else {
                eprintln!("--case missing or unparsable");
                std::process::exit(2);
            };
            if !replay_case(&mut c, &case) {
                eprintln!("unknown property {}", prop);
                std::process::exit(2);
            }
            println!("{}", c.to_json().render());
        }
        Some("enc") => {
            // debugging aid: dmv enc <hex input> <list spec> <mask>
            let input = json::unhex(args.get(2).map(|s| s.as_str()).unwrap_or("")).unwrap_or_default();
            let list = args.get(3).cloned().unwrap_or("default".into());
            let mask: u8 = args.get(4).and_then(|s| s.parse().ok()).unwrap_or(63);
            let l = util::list_from_spec(&list).expect("list");
            let _ = datamatrix::verif::take_planner_stats();
            let r = ctx::guard(|| datamatrix::data::encode_data(&input, &l, None, util::modes_from_mask(mask), false));
            let st = datamatrix::verif::take_planner_stats();
            println!("input  {:?}", util::printable(&input));
            println!("crate  {:?}", r);
            println!("stats  {:?}", st);
            println!("plan   {:?}", ctx::guard(|| datamatrix::data::encodation_plan(&input, &l, util::modes_from_mask(mask))));
            if let Ok(Ok((cw, _))) = &r {
                match refimpl::dec::decode(cw) {
                    Ok(d) => println!("rdec   latches {:?} end {:?} pad {:?} l1 {} l2 {} bytes_ok {}", d.latches, d.end_form, d.pad_start, d.l1_uses, d.l2_uses, d.bytes == input),
                    Err(e) => println!("rdec   REJECT {}", e),
                }
            }
            let caps = util::caps_from_spec(&list);
            let o = refimpl::opt::Opts { mask, header: refimpl::enc::Header::None, implicit_pair: false, trailing_254: true };
            match refimpl::opt::min_cap(&input, &caps, usize::MAX, &o) {
                Some((c, sc)) => println!("ropt   cap {} {} -> {:?}", c, sc.describe(), refimpl::enc::encode(&input, &sc).map(|x| x.0)),
                None => println!("ropt   none"),
            }
        }
        Some("miri") => {
            // tiny smoke workload for `cargo +nightly miri run`: exercises the arrayvec / alloc paths reached
            // through the crate (C40/Text/EDIFACT encoders, planner, RS codec, placement, path)
            let shard: usize = args.get(2).and_then(|s| s.parse().ok()).unwrap_or(0);
            let n: usize = args.get(3).and_then(|s| s.parse().ok()).unwrap_or(1);
            let inputs: [&[u8]; 12] = [b"Hello, World!", b"ABCDEF123456abcdef", b"\x80\x81\x82\xff", b"A1B2C3*>\r*>\r", b"aimaimaim~", b"ABCDEFGH12345678", b"[)>\x1e05\x1d01\x1e\x04", b".=<:\"&^#?3117247", b"", b"9", b"abc DEF ghi", b"\r*>\r*>AB"];
            let masks: [u8; 6] = [63, 2, 4, 17, 62, 40];
            let mut ops = 0u32;
            let mut k = 0usize;
            for inp in inputs.iter() {
                for m in masks.iter() {
                    k += 1;
                    if k % n != shard {
                        continue;
                    }
                    let r = datamatrix::DataMatrixBuilder::new().with_encodation_types(util::modes_from_mask(*m)).encode(inp);
                    ops += 1;
                    if let Ok(dm) = r {
                        let bm = dm.bitmap();
                        let back = datamatrix::DataMatrix::decode(bm.bits(), bm.width());
                        assert_eq!(back.as_deref(), Ok(&inp[..]), "miri smoke: round trip");
                        let _ = bm.path();
                        let mut cw = dm.codewords().to_vec();
                        cw[0] ^= 0x5a;
                        let _ = datamatrix::errorcode::decode_error(&mut cw, dm.size);
                        ops += 4;
                    }
                }
            }
            for s in [&[230u8, 0, 1][..], &[240, 1, 2, 3], &[231, 0, 9], &[241, 200, 3, 4], &[239, 255, 255, 254]] {
                k += 1;
                if k % n == shard {
                    let _ = datamatrix::data::decode_data(s);
                    let _ = datamatrix::data::decode_str(s);
                    ops += 2;
                }
            }
            println!("miri smoke ok shard {}/{} operations {}", shard, n, ops);
        }
        Some("distinct") => {
            // count the union of sorted u64 key files
            let mut all: Vec<u64> = Vec::new();
            for f in &args[2..] {
                if let Ok(b) = std::fs::read(f) {
                    all.extend(b.chunks_exact(8).map(|c| u64::from_le_bytes(c.try_into().unwrap())));
                }
            }
            all.sort_unstable();
            all.dedup();
            println!("{}", all.len());
        }
        _ => {
            eprintln!("usage: dmv run|replay|selftest|distinct ...");
            std::process::exit(2);
        }
    }
}
