//! Run context shared by all monitors: counters, violation log, non-trivial case keys,
//! samples, panic monitor, and the flat `Case` format used for replay files.
use crate::json::J;
use crate::rng::{hash64, Rng};
use std::cell::RefCell;
use std::collections::{BTreeMap, HashSet};
use std::panic::{self, AssertUnwindSafe};
use std::sync::atomic::{AtomicBool, AtomicU64, Ordering};
use std::sync::Mutex;

// ---------------------------------------------------------------------------------------------
// hang monitor: a watchdog thread notices when no evaluation has started for `secs` seconds, writes
// the case that was in flight (for monitors that trace their cases) and ends the process with
// exit code 3. The driver then confirms the hang by replaying that case alone.

static PROGRESS: AtomicU64 = AtomicU64::new(0);
static WATCHDOG_OFF: AtomicBool = AtomicBool::new(false);
static CURRENT: Mutex<String> = Mutex::new(String::new());

/// record the case about to be executed (cheap: one uncontended lock and a string)
pub fn trace_case(f: impl FnOnce() -> String) {
    if let Ok(mut g) = CURRENT.lock() {
        *g = f();
    }
    PROGRESS.fetch_add(1, Ordering::Relaxed);
}

static OUT_PATH: Mutex<Option<String>> = Mutex::new(None);
static PROP: Mutex<String> = Mutex::new(String::new());

/// called by the allocator guard when the heap budget is exceeded or the system refuses memory
pub fn memory_exit(live: usize, requested: usize) -> ! {
    let case = CURRENT.try_lock().map(|g| g.clone()).unwrap_or_default();
    let prop = PROP.try_lock().map(|g| g.clone()).unwrap_or_default();
    let j = J::obj().set(
        "hang",
        J::obj().set("property", J::s(&prop)).set("case", J::s(case)).set("reason", J::s("memory")).set("live_heap_bytes", J::i(live)).set("requested_bytes", J::i(requested)).set("seconds_without_progress", J::i(0)).set("evaluation", J::i(PROGRESS.load(Ordering::Relaxed))),
    );
    let out = OUT_PATH.try_lock().ok().and_then(|g| g.clone());
    match out {
        Some(f) => {
            let _ = std::fs::write(f, j.render());
        }
        None => println!("{}", j.render()),
    }
    std::process::exit(3);
}

pub fn watchdog_off() {
    WATCHDOG_OFF.store(true, Ordering::Relaxed);
}

pub fn start_watchdog(out: Option<String>, prop: String, secs: u64) {
    if let Ok(mut g) = OUT_PATH.lock() {
        *g = out.clone();
    }
    if let Ok(mut g) = PROP.lock() {
        *g = prop.clone();
    }
    std::thread::spawn(move || {
        let mut last = PROGRESS.load(Ordering::Relaxed);
        let mut since = std::time::Instant::now();
        loop {
            std::thread::sleep(std::time::Duration::from_millis(500));
            if WATCHDOG_OFF.load(Ordering::Relaxed) {
                return;
            }
            let now = PROGRESS.load(Ordering::Relaxed);
            if now != last {
                last = now;
                since = std::time::Instant::now();
            } else if since.elapsed().as_secs() >= secs {
                let case = CURRENT.lock().map(|g| g.clone()).unwrap_or_default();
                let j = J::obj().set("hang", J::obj().set("property", J::s(&prop)).set("case", J::s(case)).set("seconds_without_progress", J::i(secs)).set("evaluation", J::i(now)));
                match &out {
                    Some(f) => {
                        let _ = std::fs::write(f, j.render());
                    }
                    None => println!("{}", j.render()),
                }
                std::process::exit(3);
            }
        }
    });
}


#[derive(Clone, Debug, PartialEq)]
pub struct Case {
    pub kind: String,
    pub f: BTreeMap<String, String>,
}

impl Case {
    pub fn new(kind: &str) -> Case {
        Case { kind: kind.to_string(), f: BTreeMap::new() }
    }
    pub fn with(mut self, k: &str, v: impl ToString) -> Case {
        self.f.insert(k.to_string(), v.to_string());
        self
    }
    pub fn bytes(self, k: &str, v: &[u8]) -> Case {
        self.with(k, crate::json::hex(v))
    }
    pub fn get(&self, k: &str) -> Option<&str> {
        self.f.get(k).map(|s| s.as_str())
    }
    pub fn get_bytes(&self, k: &str) -> Vec<u8> {
        self.get(k).and_then(crate::json::unhex).unwrap_or_default()
    }
    pub fn get_usize(&self, k: &str) -> usize {
        self.get(k).and_then(|s| s.parse().ok()).unwrap_or(0)
    }
    pub fn get_u64(&self, k: &str) -> u64 {
        self.get(k).and_then(|s| s.parse().ok()).unwrap_or(0)
    }
    pub fn get_bool(&self, k: &str) -> bool {
        self.get(k) == Some("1")
    }
    pub fn flat(&self) -> String {
        let mut s = self.kind.clone();
        for (k, v) in &self.f {
            s.push(';');
            s.push_str(k);
            s.push('=');
            s.push_str(v);
        }
        s
    }
    pub fn parse(s: &str) -> Option<Case> {
        let mut it = s.trim().split(';');
        let kind = it.next()?.to_string();
        let mut f = BTreeMap::new();
        for kv in it {
            let (k, v) = kv.split_once('=')?;
            f.insert(k.to_string(), v.to_string());
        }
        Some(Case { kind, f })
    }
    pub fn key(&self) -> u64 {
        hash64(self.flat().as_bytes())
    }
}

#[derive(Clone, Debug)]
pub struct Violation {
    pub check: String,
    pub case: Case,
    pub detail: String,
}

impl Violation {
    /// key used by KNOWN_FINDINGS.txt: exact case + violated check
    pub fn key(&self) -> String {
        format!("{:016x}", hash64(format!("{}|{}", self.check, self.case.flat()).as_bytes()))
    }
}

#[derive(Clone, Copy, PartialEq, Eq, Debug)]
pub enum Tier {
    Quick,
    Thorough,
}

pub struct Ctx {
    pub prop: String,
    pub tier: Tier,
    pub seed: u64,
    pub shard: usize,
    pub nshards: usize,
    pub build: String,
    pub rng: Rng,
    pub evaluations: u64,
    pub counters: BTreeMap<String, u64>,
    pub maxima: BTreeMap<String, u64>,
    pub nontrivial: HashSet<u64>,
    pub nontrivial_overflow: u64,
    pub samples: Vec<J>,
    sample_seen: u64,
    pub violations: Vec<Violation>,
    pub violation_count: u64,
    /// class-level findings (see KNOWN_FINDINGS.txt `class=` entries): judged by the driver through a rate bound
    pub soft: Vec<Violation>,
    pub soft_count: u64,
    pub exhaustive: BTreeMap<String, bool>,
    pub notes: Vec<String>,
    pub harness_errors: Vec<String>,
}

pub const MAX_KEYS_PER_SHARD: usize = 3_000_000;

impl Ctx {
    pub fn new(prop: &str, tier: Tier, seed: u64, shard: usize, nshards: usize, build: &str) -> Ctx {
        Ctx {
            prop: prop.to_string(),
            tier,
            seed,
            shard,
            nshards,
            build: build.to_string(),
            rng: Rng::new(seed, prop, shard as u64),
            evaluations: 0,
            counters: BTreeMap::new(),
            maxima: BTreeMap::new(),
            nontrivial: HashSet::new(),
            nontrivial_overflow: 0,
            samples: Vec::new(),
            sample_seen: 0,
            violations: Vec::new(),
            violation_count: 0,
            soft: Vec::new(),
            soft_count: 0,
            exhaustive: BTreeMap::new(),
            notes: Vec::new(),
            harness_errors: Vec::new(),
        }
    }
    /// per-shard share of a tier-dependent budget
    pub fn budget(&self, quick: u64, thorough: u64) -> u64 {
        let total = if self.tier == Tier::Quick { quick } else { thorough };
        (total + self.nshards as u64 - 1) / self.nshards as u64
    }
    pub fn is_thorough(&self) -> bool {
        self.tier == Tier::Thorough
    }
    /// true if work item `i` of an enumerated space belongs to this shard
    pub fn mine(&self, i: usize) -> bool {
        i % self.nshards == self.shard
    }
    pub fn eval(&mut self) {
        self.evaluations += 1;
        PROGRESS.fetch_add(1, Ordering::Relaxed);
    }
    pub fn count(&mut self, name: &str) {
        *self.counters.entry(name.to_string()).or_insert(0) += 1;
    }
    pub fn count_n(&mut self, name: &str, n: u64) {
        *self.counters.entry(name.to_string()).or_insert(0) += n;
    }
    pub fn max(&mut self, name: &str, v: u64) {
        let e = self.maxima.entry(name.to_string()).or_insert(0);
        if v > *e {
            *e = v;
        }
    }
    pub fn nontrivial(&mut self, key: u64) {
        if self.nontrivial.len() < MAX_KEYS_PER_SHARD {
            self.nontrivial.insert(key);
        } else {
            self.nontrivial_overflow += 1;
        }
    }
    pub fn sample(&mut self, j: impl FnOnce() -> J) {
        self.sample_seen += 1;
        if self.samples.len() < 4 {
            self.samples.push(j());
        } else if self.sample_seen.is_power_of_two() {
            // keep a few later ones as well
            let idx = 2 + (self.sample_seen.trailing_zeros() as usize % 2);
            self.samples[idx] = j();
        }
    }
    pub fn violation(&mut self, check: &str, case: &Case, detail: impl Into<String>) {
        self.violation_count += 1;
        self.count(&format!("violation.{}", check));
        if self.violations.len() < 400 {
            self.violations.push(Violation { check: check.to_string(), case: case.clone(), detail: detail.into() });
        }
    }
    pub fn soft_violation(&mut self, check: &str, case: &Case, detail: impl Into<String>) {
        self.soft_count += 1;
        self.count(&format!("soft.{}", check));
        if self.soft.len() < 60 {
            self.soft.push(Violation { check: check.to_string(), case: case.clone(), detail: detail.into() });
        }
    }
    pub fn harness_error(&mut self, msg: impl Into<String>) {
        if self.harness_errors.len() < 50 {
            self.harness_errors.push(msg.into());
        }
    }
    pub fn to_json(&self) -> J {
        let mut cnt = J::obj();
        for (k, v) in &self.counters {
            cnt = cnt.set(k, J::i(*v));
        }
        let mut mx = J::obj();
        for (k, v) in &self.maxima {
            mx = mx.set(k, J::i(*v));
        }
        let mut ex = J::obj();
        for (k, v) in &self.exhaustive {
            ex = ex.set(k, J::Bool(*v));
        }
        let viol: Vec<J> = self
            .violations
            .iter()
            .map(|v| {
                J::obj()
                    .set("check", J::s(&v.check))
                    .set("case", J::s(v.case.flat()))
                    .set("detail", J::s(&v.detail))
                    .set("key", J::s(v.key()))
            })
            .collect();
        let soft: Vec<J> = self
            .soft
            .iter()
            .map(|v| J::obj().set("check", J::s(&v.check)).set("case", J::s(v.case.flat())).set("detail", J::s(&v.detail)).set("key", J::s(v.key())))
            .collect();
        J::obj()
            .set("soft", J::Arr(soft))
            .set("soft_count", J::i(self.soft_count))
            .set("property", J::s(&self.prop))
            .set("shard", J::i(self.shard))
            .set("nshards", J::i(self.nshards))
            .set("build", J::s(&self.build))
            .set("evaluations", J::i(self.evaluations))
            .set("counters", cnt)
            .set("maxima", mx)
            .set("exhaustive", ex)
            .set("nontrivial_keys", J::i(self.nontrivial.len()))
            .set("nontrivial_overflow", J::i(self.nontrivial_overflow))
            .set("samples", J::Arr(self.samples.clone()))
            .set("violations", J::Arr(viol))
            .set("violation_count", J::i(self.violation_count))
            .set("notes", J::Arr(self.notes.iter().map(J::s).collect()))
            .set("harness_errors", J::Arr(self.harness_errors.iter().map(J::s).collect()))
    }
}

// ---------------------------------------------------------------------------------------------
// panic monitor

thread_local! {
    static LAST_PANIC: RefCell<Option<String>> = RefCell::new(None);
}

pub fn install_panic_hook() {
    panic::set_hook(Box::new(|info| {
        let loc = info.location().map(|l| format!("{}:{}", l.file(), l.line())).unwrap_or_else(|| "?".into());
        let msg = if let Some(s) = info.payload().downcast_ref::<&str>() {
            s.to_string()
        } else if let Some(s) = info.payload().downcast_ref::<String>() {
            s.clone()
        } else {
            "<non-string payload>".to_string()
        };
        if std::env::var_os("DMV_BACKTRACE").is_some() {
            eprintln!("panic at {}: {}\n{}", loc, msg, std::backtrace::Backtrace::force_capture());
        }
        let mut msg: String = msg.chars().take(160).collect();
        msg = msg.replace('\n', " ");
        LAST_PANIC.with(|p| *p.borrow_mut() = Some(format!("{} :: {}", loc, msg)));
    }));
}

/// Run `f`; a panic is caught and returned as `Err("file:line :: message")`.
pub fn guard<T>(f: impl FnOnce() -> T) -> Result<T, String> {
    LAST_PANIC.with(|p| *p.borrow_mut() = None);
    match panic::catch_unwind(AssertUnwindSafe(f)) {
        Ok(v) => Ok(v),
        Err(_) => Err(LAST_PANIC.with(|p| p.borrow_mut().take()).unwrap_or_else(|| "? :: panic".into())),
    }
}

/// the `file:line` part of a captured panic
pub fn panic_site(p: &str) -> &str {
    p.split(" :: ").next().unwrap_or(p)
}
