//! Bitmap generators for C17: densities and topologies that stress the outline decomposition.
use crate::rng::Rng;

pub fn gen(rng: &mut Rng, max_dim: usize, force_dark_topleft: bool) -> (Vec<bool>, usize, usize, &'static str) {
    let (w, h) = if rng.chance(1, 3) { (rng.range(1, 12), rng.range(1, 12)) } else { (rng.range(1, max_dim), rng.range(1, max_dim)) };
    let mut b = vec![false; w * h];
    let tag = match rng.below(9) {
        0 => {
            let d = *rng.pick(&[1usize, 5, 20, 50, 80, 95, 99]);
            for x in b.iter_mut() {
                *x = rng.chance(d, 100);
            }
            "density"
        }
        1 => {
            // nested rings
            for y in 0..h {
                for x in 0..w {
                    let d = x.min(y).min(w - 1 - x).min(h - 1 - y);
                    b[y * w + x] = d % 2 == 0;
                }
            }
            "nested_rings"
        }
        2 => {
            let p = rng.below(2);
            for y in 0..h {
                for x in 0..w {
                    b[y * w + x] = (x + y) % 2 == p;
                }
            }
            b[0] = true;
            "checkerboard"
        }
        3 => {
            // comb
            for y in 0..h {
                for x in 0..w {
                    b[y * w + x] = y == 0 || x % 2 == 0;
                }
            }
            "comb"
        }
        4 => {
            // solid with single-pixel holes
            for x in b.iter_mut() {
                *x = true;
            }
            for _ in 0..(w * h / 7).max(1) {
                let p = rng.below(w * h);
                b[p] = false;
            }
            "single_pixel_holes"
        }
        5 => {
            // disjoint islands
            for _ in 0..rng.range(1, 12) {
                let (x0, y0) = (rng.below(w), rng.below(h));
                let (ww, hh) = (rng.range(1, 4), rng.range(1, 4));
                for y in y0..(y0 + hh).min(h) {
                    for x in x0..(x0 + ww).min(w) {
                        b[y * w + x] = true;
                    }
                }
            }
            "islands"
        }
        6 => {
            // diagonal staircase: maximal diagonal contacts
            for i in 0..w.min(h) {
                b[i * w + i] = true;
                if rng.chance(1, 2) && i + 1 < w {
                    b[i * w + i + 1] = rng.chance(1, 2);
                }
            }
            "diagonal_contacts"
        }
        7 => {
            // rings with diagonal bridges: 2x2 checker blocks in a solid field
            for x in b.iter_mut() {
                *x = rng.chance(1, 2);
            }
            for y in (0..h.saturating_sub(1)).step_by(3) {
                for x in (0..w.saturating_sub(1)).step_by(3) {
                    b[y * w + x] = true;
                    b[y * w + x + 1] = false;
                    b[(y + 1) * w + x] = false;
                    b[(y + 1) * w + x + 1] = true;
                }
            }
            "checker_blocks"
        }
        _ => {
            // frame + random interior (like a symbol)
            for y in 0..h {
                for x in 0..w {
                    b[y * w + x] = x == 0 || y == h - 1 || (y == 0 && x % 2 == 0) || (x == w - 1 && y % 2 == 1) || rng.chance(1, 2);
                }
            }
            "symbol_like"
        }
    };
    if force_dark_topleft {
        b[0] = true;
    }
    (b, w, h, tag)
}
