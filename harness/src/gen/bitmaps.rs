//! Bitmap generators for C17: densities and topologies that stress the outline decomposition.
use crate::rng::Rng;

pub fn gen(rng: &mut Rng, max_dim: usize, force_dark_topleft: bool) -> (Vec<bool>, usize, usize, &'static str) {
    let (w, h) = if rng.chance(1, 3) { (rng.range(1, 12), rng.range(1, 12)) } else { (rng.range(1, max_dim), rng.range(1, max_dim)) };
    let mut b = vec![false; w * h];
    let tag = match rng.below(9) {
        0 => {
            let d = *rng.pick(&[1usize, 5, 20, 50, 80, 95, 99]);
            for x in b.iter_mut() {
                *x = rng.chance(d, 100);
            }
            "density"
        }
        1 => {
            // nested rings
            for y in 0..h {
                for x in 0..w {
                    let d = x.min(y).min(w - 1 - x).min(h - 1 - y);
                    b[y * w + x] = d % 2 == 0;
                }
            }
            "nested_rings"
        }
        2 => {
            let p = rng.below(2);
            for y in 0..h {
                for x in 0..w {
                    b[y * w + x] = (x + y) % 2 == p;
                }
            }
            b[0] = true;
            "checkerboard"
        }
        3 => {
            // comb
            for y in 0..h {
                for x in 0..w {
                    b[y * w + x] = y == 0 || x % 2 == 0;
                }
            }
            "comb"
        }
        4 => {
            // solid with single-pixel holes
            for x in b.iter_mut() {
                *x = true;
            }
            for _ in 0..(w * h / 7).max(1) {
                let p = rng.below(w * h);
                b[p] = false;
            }
            "single_pixel_holes"
        }
        5 => {
            // disjoint islands
            for _ in 0..rng.range(1, 12) {
                let (x0, y0) = (rng.below(w), rng.below(h));
                let (ww, hh) = (rng.range(1, 4), rng.range(1, 4));
                for y in y0..(y0 + hh).min(h) {
                    for x in x0..(x0 + ww).min(w) {
                        b[y * w + x] = true;
                    }
                }
            }
            "islands"
        }
        6 => {
            // diagonal staircase: maximal diagonal contacts
            for i in 0..w.min(h) {
                b[i * w + i] = true;
                if rng.chance(1, 2) && i + 1 < w {
                    b[i * w + i + 1] = rng.chance(1, 2);
                }
            }
            "diagonal_contacts"
        }
        7 => {
            // rings with diagonal bridges: 2x2 checker blocks in a solid field
            for x in b.iter_mut() {
                *x = rng.chance(1, 2);
            }
            for y in (0..h.saturating_sub(1)).step_by(3) {
                for x in (0..w.saturating_sub(1)).step_by(3) {
                    b[y * w + x] = true;
                    b[y * w + x + 1] = false;
                    b[(y + 1) * w + x] = false;
                    b[(y + 1) * w + x + 1] = true;
                }
            }
            "checker_blocks"
        }
        _ => {
            // frame + random interior (like a symbol)
            for y in 0..h {
                for x in 0..w {
                    b[y * w + x] = x == 0 || y == h - 1 || (y == 0 && x % 2 == 0) || (x == w - 1 && y % 2 == 1) || rng.chance(1, 2);
                }
            }
            "symbol_like"
        }
    };
    if force_dark_topleft {
        b[0] = true;
    }
    (b, w, h, tag)
}

/// large shapes whose outline is ONE very long closed walk (serpentine band, spiral), with a few
/// one-module bumps and diagonally touching modules sprinkled along it (branch points of the walk)
pub fn long_contour(rng: &mut Rng, w: usize, h: usize) -> (Vec<bool>, &'static str) {
    let mut b = vec![false; w * h];
    let tag;
    if rng.chance(1, 3) {
        // comb: full top row, one-module wide teeth in every other column reaching down to row h-2, and modules
        // that touch the tooth ends only diagonally (degree-4 nodes of the outline graph) - many of them late in
        // the walk, i.e. at the teeth on the far side
        let mut b = vec![false; w * h];
        for x in 0..w {
            b[x] = true;
        }
        for x in (0..w).step_by(2) {
            for y in 0..h - 1 {
                b[y * w + x] = true;
            }
        }
        let nd = rng.range(1, 10);
        for k in 0..nd {
            let x = if k % 2 == 0 { w - 2 - 2 * rng.below((w / 8).max(1)).min((w - 2) / 2) } else { 2 * rng.below(w / 2) };
            let x = (x / 2 * 2 + 1).min(w - 1);
            b[(h - 1) * w + x] = true;
        }
        b[0] = true;
        return (b, "big_comb_with_diagonal_contacts");
    }
    if rng.chance(1, 2) {
        // serpentine: full rows 0, 4, 6, 8, ... (or 0, 4, 8, ...) joined alternately at the right and the left end:
        // one closed outline walk of about w*h (w*h/2) unit edges
        tag = "serpentine";
        let step = if rng.chance(2, 3) { 2 } else { 4 };
        let mut rows: Vec<usize> = vec![0];
        let mut y = 4;
        while y < h {
            rows.push(y);
            y += step;
        }
        for r in &rows {
            for x in 0..w {
                b[r * w + x] = true;
            }
        }
        let mut right = true;
        for pair in rows.windows(2) {
            let x = if right { w - 1 } else { 0 };
            for yy in pair[0]..pair[1] {
                b[yy * w + x] = true;
            }
            right = !right;
        }
        // motif hanging under a band row: two one-module bumps and a module touching both only diagonally; under
        // row 0 it is reached at the very end of the outer walk, under later rows somewhere in the middle
        for k in 0..rng.range(1, 6) {
            let y0 = if k == 0 || rng.chance(1, 2) || step == 2 { 0 } else { 4 * rng.below((h / 4).max(1)) };
            if y0 + 3 < h && w > 8 {
                let x = rng.range(2, w - 5);
                b[(y0 + 1) * w + x] = true;
                b[(y0 + 1) * w + x + 2] = true;
                b[(y0 + 2) * w + x + 1] = true;
            }
        }
    } else {
        // rectangular spiral with arm width 1 and gap 2
        tag = "spiral";
        let (mut x0, mut y0, mut x1, mut y1) = (0i64, 0i64, w as i64 - 1, h as i64 - 1);
        let mut first = true;
        while x0 <= x1 && y0 <= y1 {
            for x in x0..=x1 {
                b[(y0 as usize) * w + x as usize] = true;
            }
            for y in y0..=y1 {
                b[(y as usize) * w + x1 as usize] = true;
            }
            if y1 - y0 >= 3 {
                for x in (x0 + if first { 0 } else { 0 })..=x1 {
                    b[(y1 as usize) * w + x as usize] = true;
                }
                for y in (y0 + 3)..=y1 {
                    b[(y as usize) * w + x0 as usize] = true;
                }
                // connect into the next ring
                if x1 - x0 >= 3 {
                    for x in x0..=(x0 + 3).min(x1) {
                        b[((y0 + 3) as usize) * w + x as usize] = true;
                    }
                }
            }
            first = false;
            x0 += 3;
            y0 += 3;
            x1 -= 3;
            y1 -= 3;
        }
    }
    // bumps and diagonal contacts, preferably far along the walk (towards the end of the bitmap)
    for _ in 0..rng.range(2, 12) {
        let y = if rng.chance(2, 3) { rng.range(h / 2, h - 1) } else { rng.below(h) };
        let x = rng.below(w);
        b[y * w + x] = !b[y * w + x];
    }
    b[0] = true;
    (b, tag)
}
