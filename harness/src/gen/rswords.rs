//! Fault generators for the Reed-Solomon monitors (C03, C09, C05): valid codewords from R-RS,
//! error patterns by weight per interleaved block, words with vanishing leading syndromes, noise.
use crate::refimpl::cat::Row;
use crate::refimpl::gf::{self, Rs};
use crate::rng::Rng;

/// a valid full codeword vector for `r` (parity from R-RS, not from the crate)
pub fn valid_codeword(rng: &mut Rng, r: &Row, rs: &Rs, style: usize) -> Vec<u8> {
    let data: Vec<u8> = match style % 4 {
        0 => vec![0u8; r.data],
        1 => vec![0xFFu8; r.data],
        2 => (0..r.data).map(|i| (i % 251) as u8).collect(),
        _ => rng.bytes(r.data),
    };
    let mut cw = data.clone();
    let mut ecc = vec![0u8; r.ecc];
    for b in 0..r.blocks {
        let p = rs.parity((b..r.data).step_by(r.blocks).map(|i| data[i]));
        for (j, v) in p.iter().enumerate() {
            ecc[b + j * r.blocks] = *v;
        }
    }
    cw.extend(ecc);
    cw
}

/// pick a position inside block `b`, biased to the boundaries of the strided layout
pub fn biased_pos(rng: &mut Rng, pos: &[usize], ndata: usize) -> usize {
    let n = pos.len();
    match rng.below(9) {
        0 => pos[0],
        1 => pos[ndata - 1],
        2 => pos[ndata],
        3 => pos[n - 1],
        4 => pos[ndata + rng.below(n - ndata)],
        _ => pos[rng.below(n)],
    }
}

pub fn err_value(rng: &mut Rng) -> u8 {
    match rng.below(6) {
        0 => 1,
        1 => 0x80,
        2 => 0xFF,
        _ => 1 + rng.below(255) as u8,
    }
}

/// error pattern with exactly `w[b]` errors in block b
pub fn pattern(rng: &mut Rng, r: &Row, weights: &[usize]) -> Vec<(usize, u8)> {
    let mut out: Vec<(usize, u8)> = Vec::new();
    for b in 0..r.blocks {
        let pos = r.block_positions(b);
        let nd = r.block_data_len(b);
        let mut chosen: Vec<usize> = Vec::new();
        let w = weights[b].min(pos.len());
        while chosen.len() < w {
            let p = biased_pos(rng, &pos, nd);
            if !chosen.contains(&p) {
                chosen.push(p);
            }
        }
        for p in chosen {
            out.push((p, err_value(rng)));
        }
    }
    out
}

pub fn apply(cw: &[u8], e: &[(usize, u8)]) -> Vec<u8> {
    let mut w = cw.to_vec();
    for (p, v) in e {
        w[*p] ^= *v;
    }
    w
}

/// add to block b of `cw` an error polynomial that has 2^1..2^j among its roots, so that the first
/// j syndromes of the received block vanish while the word is (almost surely) not a codeword
pub fn add_vanishing(rng: &mut Rng, r: &Row, cw: &mut [u8], b: usize, j: usize, qdeg: usize) {
    let roots: Vec<usize> = (1..=j).collect();
    add_with_roots(rng, r, cw, b, &roots, qdeg)
}

/// random subset of the syndrome indices 1..=k; biased to "all but a few"
pub fn random_root_set(rng: &mut Rng, k: usize) -> Vec<usize> {
    match rng.below(4) {
        0 => (1..=k).filter(|_| rng.chance(1, 2)).collect(),
        1 => {
            // all but one
            let skip = rng.range(1, k);
            (1..=k).filter(|i| *i != skip).collect()
        }
        2 => {
            // all but two
            let (a, b) = (rng.range(1, k), rng.range(1, k));
            (1..=k).filter(|i| *i != a && *i != b).collect()
        }
        _ => {
            // a window
            let a = rng.range(1, k);
            let b = rng.range(a, k);
            (a..=b).collect()
        }
    }
}

/// add to block b an error polynomial that vanishes at 2^i for every i in `roots`, so that
/// exactly (at least) those syndromes S_i of the received block are zero
pub fn add_with_roots(rng: &mut Rng, r: &Row, cw: &mut [u8], b: usize, roots: &[usize], qdeg: usize) {
    let pos = r.block_positions(b);
    let n = pos.len();
    let j = roots.len();
    let mut g = vec![1u8];
    for i in roots {
        let root = gf::pow2(*i);
        let mut nx = vec![0u8; g.len() + 1];
        for (d, c) in g.iter().enumerate() {
            nx[d] ^= *c;
            nx[d + 1] ^= gf::mul(*c, root);
        }
        g = nx;
    }
    let qlen = (qdeg + 1).min(n.saturating_sub(j)).max(1);
    let mut q: Vec<u8> = (0..qlen).map(|_| rng.byte()).collect();
    if q[0] == 0 {
        q[0] = 1;
    }
    // e = q * g, highest first, degree qlen-1+j < n
    let mut e = vec![0u8; qlen + j];
    for (a, qa) in q.iter().enumerate() {
        for (c, gc) in g.iter().enumerate() {
            e[a + c] ^= gf::mul(*qa, *gc);
        }
    }
    // shift: place at a random degree offset (multiplying by x^s keeps the roots)
    let slack = n - e.len();
    let s = if slack > 0 { rng.below(slack + 1) } else { 0 };
    // word[0] is highest degree (n-1); coefficient of degree d sits at index n-1-d
    let top = e.len() - 1 + s; // degree of e*x^s
    for (i, c) in e.iter().enumerate() {
        let d = top - i;
        cw[pos[n - 1 - d]] ^= *c;
    }
}

/// add to block b the syndromes of a single error of value `e` at the *virtual* polynomial position
/// `p` (p >= block length is outside the received word): r += e * x^p mod g, which lives entirely in
/// the error-codeword part. The locator then has a root at 2^-p, i.e. an error location >= n.
pub fn add_virtual_error(r: &Row, rs: &Rs, cw: &mut [u8], b: usize, p: usize, e: u8) {
    let k = r.k();
    if p < k {
        return;
    }
    let mut d = vec![0u8; p - k + 1];
    d[0] = e;
    let par = rs.parity(d.into_iter());
    for (j, v) in par.iter().enumerate() {
        cw[r.data + b + j * r.blocks] ^= *v;
    }
}

/// a family of "structured" syndrome prefixes that make the locator search take its rare branches
pub fn structured_syndromes(rng: &mut Rng, w: usize) -> Vec<u8> {
    let a = 1 + rng.below(255) as u8;
    let r = 1 + rng.below(255) as u8;
    match rng.below(7) {
        // geometric sequence: every leading minor beyond the first is singular
        0 => {
            let mut v = Vec::with_capacity(w);
            let mut x = a;
            for _ in 0..w {
                v.push(x);
                x = gf::mul(x, r);
            }
            v
        }
        // a single non-zero entry somewhere
        1 => {
            let mut v = vec![0u8; w];
            let p = rng.below(w);
            v[p] = a;
            v
        }
        // first and one later entry non-zero (long run of zeros in between)
        2 => {
            let mut v = vec![0u8; w];
            v[0] = a;
            if w > 1 {
                let p = rng.range(1, w - 1);
                v[p] = r;
            }
            v
        }
        // constant
        3 => vec![a; w],
        // period two
        4 => (0..w).map(|i| if i % 2 == 0 { a } else { r }).collect(),
        // zeros then geometric
        5 => {
            let z = rng.below(w);
            let mut v = vec![0u8; w];
            let mut x = a;
            for e in v.iter_mut().skip(z) {
                *e = x;
                x = gf::mul(x, r);
            }
            v
        }
        // low-order linear recurrence s_{i+2} = p s_{i+1} + q s_i
        _ => {
            let (p, q) = (rng.byte(), 1 + rng.below(255) as u8);
            let mut v = vec![a, r];
            while v.len() < w {
                let n = v.len();
                v.push(gf::mul(p, v[n - 1]) ^ gf::mul(q, v[n - 2]));
            }
            v.truncate(w);
            v
        }
    }
}

/// error pattern of weight exactly `w` in block `b` (random distinct positions) whose first `w`
/// syndromes S_1..S_w equal `target`; None if the values cannot all be non-zero
pub fn pattern_with_syndromes(rng: &mut Rng, r: &Row, b: usize, w: usize, target: &[u8]) -> Option<Vec<(usize, u8)>> {
    let pos = r.block_positions(b);
    let n = pos.len();
    let mut idx: Vec<usize> = (0..n).collect();
    rng.shuffle(&mut idx);
    idx.truncate(w);
    // position index i in the block word has degree n-1-i, locator X = 2^(n-1-i)
    let xs: Vec<u8> = idx.iter().map(|i| gf::pow2(n - 1 - *i)).collect();
    let mut m = vec![vec![0u8; w]; w];
    for (l, x) in xs.iter().enumerate() {
        let mut p = *x;
        for row in m.iter_mut().take(w) {
            row[l] = p;
            p = gf::mul(p, *x);
        }
    }
    let e = gf::solve(m, target.to_vec())?;
    if e.iter().any(|v| *v == 0) {
        return None;
    }
    Some(idx.iter().zip(e).map(|(i, v)| (pos[*i], v)).collect())
}

/// add to block b's error-codeword part the (unique) polynomial of degree < k whose k syndromes equal `target`
pub fn set_all_syndromes(r: &Row, cw: &mut [u8], b: usize, target: &[u8]) {
    let k = r.k();
    // unknown coefficients c_0..c_{k-1} of x^0..x^{k-1}; S_j = sum c_i (2^j)^i
    let mut m = vec![vec![0u8; k]; k];
    for j in 0..k {
        let x = gf::pow2(j + 1);
        let mut p = 1u8;
        for i in 0..k {
            m[j][i] = p;
            p = gf::mul(p, x);
        }
    }
    if let Some(c) = gf::solve(m, target.to_vec()) {
        // coefficient of x^i sits at ecc index k-1-i of the block
        for (i, v) in c.iter().enumerate() {
            cw[r.data + b + (k - 1 - i) * r.blocks] ^= *v;
        }
    }
}
