//! Workload generators for the encoder-side monitors: inputs by character class and shape,
//! symbol-list specs, mode masks. See DESIGN.md section 4.
use crate::refimpl::cat::CAT;
use crate::rng::Rng;

#[derive(Clone, Copy, Debug, PartialEq)]
pub enum Class {
    Digit,
    Upper,
    Lower,
    Space,
    X12Only,
    EdiPunct,
    Shift2,
    Shift3,
    Ctrl,
    HighDigit,
    HighUpper,
    HighLower,
    HighCtrl,
    HighOther,
    Any,
}

pub const CLASSES: [Class; 15] = [
    Class::Digit,
    Class::Upper,
    Class::Lower,
    Class::Space,
    Class::X12Only,
    Class::EdiPunct,
    Class::Shift2,
    Class::Shift3,
    Class::Ctrl,
    Class::HighDigit,
    Class::HighUpper,
    Class::HighLower,
    Class::HighCtrl,
    Class::HighOther,
    Class::Any,
];

/// the classes most encodation modes compete on
pub const CORE: [Class; 8] = [Class::Digit, Class::Upper, Class::Lower, Class::Space, Class::X12Only, Class::EdiPunct, Class::Shift3, Class::HighOther];

pub fn class_char(rng: &mut Rng, c: Class) -> u8 {
    match c {
        Class::Digit => b'0' + rng.below(10) as u8,
        Class::Upper => b'A' + rng.below(26) as u8,
        Class::Lower => b'a' + rng.below(26) as u8,
        Class::Space => b' ',
        Class::X12Only => *rng.pick(b"\r*>"),
        Class::EdiPunct => *rng.pick(b"!\"#$%&'()+,-./:;<=?@[\\]^"),
        Class::Shift2 => *rng.pick(b"!\"#$%&'()*+,-./:;<=>?@[\\]^_"),
        Class::Shift3 => *rng.pick(b"`{|}~\x7f"),
        Class::Ctrl => rng.below(32) as u8,
        Class::HighDigit => 128 + b'0' + rng.below(10) as u8,
        Class::HighUpper => 128 + b'A' + rng.below(26) as u8,
        Class::HighLower => 128 + b'a' + rng.below(26) as u8,
        Class::HighCtrl => 128 + rng.below(32) as u8,
        Class::HighOther => 128 + rng.below(128) as u8,
        Class::Any => rng.byte(),
    }
}

/// literals from the repository's tests and examples, used as mutation seeds
pub const SEEDS: &[&[u8]] = &[
    b"test TE>240 2 I.E ST>300",
    b"<03>TILSIT-MUNSTER<05>Paula",
    b"**10074938*Q6000*P85005-FLT003*RA*0*K110775*VKAR99AL*1T100749381**",
    b"https://test~[******]_",
    b"abc<->ABCDE",
    b"<ABCDEFG><ABCDEFGK>",
    b"*CH/GN1/022/00",
    b"02900002608229JDZ*9P0AD8AWFRB",
    b"9HR3Z6",
    b"UEXPLR4-CBR3A3-001-TSK 13471 3216",
    b"10000000000&AA0000&000000000000&#FFFFFFFFFFFF&00:00:00:A3:C5:62",
    &[50, 32, 32, 252],
    &[10, 66, 56, 138],
    &[32, 74, 224, 245],
    &[10, 39, 66, 66, 138],
    &[32, 32, 153, 205],
    &[43, 4, 32, 32, 32, 74, 32, 32],
    &[42, 32, 56, 40, 68, 68, 68, 68, 68, 74, 167],
    &[255, 74, 66, 57, 32, 50, 74, 255],
    &[64, 75, 75, 75, 75, 61, 75, 32, 126],
    &[48, 47, 47, 48, 47, 47, 64, 93],
    &[32, 64, 255, 83, 48, 76, 63, 20],
    &[108, 72, 72, 58, 72, 72, 72],
    b"\xa3_>>>>> \x82",
    b"Hello, World!",
    b"01034531200000111719112510ABCD1234\x1d2110",
    b"ABCDEFGH12345678",
    b"AIMAIMAIMAIMAIMAIM",
    b"A1B2C3D4E5F6G7H8I9J0K1L2",
    b"aimaimaim~",
    b"*********00",
    b"ab*de",
    b"DATA",
    b"123456",
    b"[)>\x1e05\x1d01\x1e\x04",
    b"[)>\x1e06\x1d11\x1e\x04",
];

pub const MACRO05: &[u8] = b"[)>\x1e05\x1d";
pub const MACRO06: &[u8] = b"[)>\x1e06\x1d";
pub const TRAIL: &[u8] = b"\x1e\x04";

fn runs(rng: &mut Rng, target: usize, classes: &[Class], mean: usize) -> Vec<u8> {
    let mut v = Vec::with_capacity(target);
    while v.len() < target {
        let c = *rng.pick(classes);
        let n = rng.geo(mean).min(target - v.len());
        for _ in 0..n {
            v.push(class_char(rng, c));
        }
    }
    v
}

fn alternation(rng: &mut Rng, target: usize) -> Vec<u8> {
    let period = rng.range(1, 7);
    let ncls = rng.range(2, 3);
    let cls: Vec<Class> = (0..ncls).map(|_| *rng.pick(&CORE)).collect();
    let fixed = rng.chance(1, 2);
    let reps: Vec<u8> = cls.iter().map(|c| class_char(rng, *c)).collect();
    let mut v = Vec::with_capacity(target);
    let mut k = 0;
    while v.len() < target {
        let ci = k % ncls;
        for _ in 0..period {
            if v.len() < target {
                v.push(if fixed { reps[ci] } else { class_char(rng, cls[ci]) });
            }
        }
        k += 1;
    }
    v
}

/// a string whose encoding in one mode ends within a few codewords of a symbol capacity
fn capacity_boundary(rng: &mut Rng, max_cap: usize) -> Vec<u8> {
    let caps: Vec<usize> = CAT.iter().map(|r| r.data).filter(|c| *c <= max_cap).collect();
    let cap = *rng.pick(&caps) as i64;
    let delta = rng.below(9) as i64 - 4;
    let (cls, len): (Class, i64) = match rng.below(8) {
        0 => (Class::Digit, 2 * cap + delta),
        1 => (Class::Upper, (cap - 1) * 3 / 2 + delta),
        2 => (Class::Lower, (cap - 1) * 3 / 2 + delta),
        3 => (Class::EdiPunct, (cap - 1) * 4 / 3 + delta),
        4 => (Class::HighOther, cap - 2 + delta),
        5 => (Class::Lower, cap + delta),
        6 => (Class::X12Only, (cap - 1) * 3 / 2 + delta),
        _ => (Class::Shift3, cap + delta),
    };
    let len = len.max(0) as usize;
    let mut v: Vec<u8> = (0..len).map(|_| class_char(rng, cls)).collect();
    // optionally a different tail, to hit the end-of-data forms
    if rng.chance(1, 2) && !v.is_empty() {
        let k = rng.range(1, 4).min(v.len());
        let tc = *rng.pick(&CLASSES);
        let n = v.len();
        for i in 0..k {
            v[n - 1 - i] = class_char(rng, tc);
        }
    }
    v
}

fn digit_tail(rng: &mut Rng, target: usize) -> Vec<u8> {
    let c = *rng.pick(&CORE);
    let k = rng.range(1, 8);
    let head = target.saturating_sub(k).max(1);
    let mut v: Vec<u8> = (0..head).map(|_| class_char(rng, c)).collect();
    for _ in 0..k {
        v.push(class_char(rng, Class::Digit));
    }
    v
}

pub fn macro_material(rng: &mut Rng, body_max: usize) -> Vec<u8> {
    let head: &[u8] = if rng.chance(1, 2) { MACRO05 } else { MACRO06 };
    let blen = if rng.chance(1, 3) { rng.below(5) } else { rng.below(body_max + 1) };
    let body = if rng.chance(1, 2) { runs(rng, blen, &CLASSES, 4) } else { runs(rng, blen, &[Class::Digit, Class::Upper, Class::Lower, Class::Space], 4) };
    let body = if rng.chance(1, 8) {
        // the body itself is (or ends like) an envelope
        let inner: &[u8] = if rng.chance(1, 2) { MACRO05 } else { MACRO06 };
        match rng.below(3) {
            0 => [inner, &body[..], TRAIL].concat(),
            1 => [&body[..], TRAIL].concat(),
            _ => [inner, &body[..]].concat(),
        }
    } else {
        body
    };
    let mut v = Vec::new();
    match rng.below(12) {
        0 => v.extend_from_slice(head),                       // bare header
        1 => {
            v.extend_from_slice(head);
            v.extend_from_slice(&body); // header without trailer
        }
        2 => {
            v.extend_from_slice(&body);
            v.extend_from_slice(TRAIL); // trailer only
        }
        3 => {
            v.extend_from_slice(&head[..rng.range(1, 6)]);
            v.extend_from_slice(&body);
            v.extend_from_slice(TRAIL); // truncated header
        }
        4 => {
            v.extend_from_slice(head);
            v.extend_from_slice(&body);
            v.extend_from_slice(&TRAIL[..1]); // truncated trailer
        }
        5 => {
            v.extend_from_slice(head);
            v.extend_from_slice(head);
            v.extend_from_slice(&body);
            v.extend_from_slice(TRAIL);
            if rng.chance(1, 2) {
                v.extend_from_slice(TRAIL);
            }
        }
        6 => {
            v.extend_from_slice(head);
            v.extend_from_slice(TRAIL); // empty body
        }
        _ => {
            v.extend_from_slice(head);
            v.extend_from_slice(&body);
            v.extend_from_slice(TRAIL);
        }
    }
    v
}

fn mutate_seed(rng: &mut Rng) -> Vec<u8> {
    let mut v = rng.pick(SEEDS).to_vec();
    for _ in 0..rng.below(4) {
        if v.is_empty() {
            break;
        }
        match rng.below(5) {
            0 => {
                let other = rng.pick(SEEDS);
                let cut = rng.below(v.len() + 1);
                v.truncate(cut);
                v.extend_from_slice(&other[rng.below(other.len() + 1).min(other.len())..]);
            }
            1 => {
                let (a, b) = (rng.below(v.len()), rng.below(v.len()));
                let (a, b) = (a.min(b), a.max(b));
                let seg = v[a..=b].to_vec();
                v.extend_from_slice(&seg);
            }
            2 => {
                let cut = rng.below(v.len() + 1);
                v.truncate(cut);
            }
            3 => {
                let p = rng.below(v.len());
                let cl = *rng.pick(&CLASSES);
                v[p] = class_char(rng, cl);
            }
            _ => {
                let p = rng.below(v.len() + 1);
                let cl = *rng.pick(&CLASSES);
                v.insert(p, class_char(rng, cl));
            }
        }
    }
    v
}

/// length profile: 70 % <= 40, 20 % <= 300, 10 % up to `max_len`
pub fn pick_len(rng: &mut Rng, max_len: usize) -> usize {
    let r = rng.below(100);
    let n = if r < 70 {
        rng.below(41)
    } else if r < 90 {
        rng.below(301)
    } else {
        rng.below(max_len + 1)
    };
    n.min(max_len)
}

/// general purpose input
pub fn gen_input(rng: &mut Rng, max_len: usize) -> Vec<u8> {
    let target = pick_len(rng, max_len);
    let mut v = match rng.below(20) {
        0..=4 => {
            let k = rng.range(1, 4);
            let cls: Vec<Class> = (0..k).map(|_| *rng.pick(&CLASSES)).collect();
            let m = rng.range(1, 8);
            runs(rng, target, &cls, m)
        }
        5..=7 => {
            let m = rng.range(1, 6);
            runs(rng, target, &CORE, m)
        }
        8..=10 => alternation(rng, target),
        11..=13 => capacity_boundary(rng, (max_len / 2).max(12)),
        14..=15 => digit_tail(rng, target.max(2)),
        16 => macro_material(rng, 40),
        17 => mutate_seed(rng),
        18 => rng.bytes(target),
        _ => {
            // long homogeneous
            let c = *rng.pick(&CLASSES);
            (0..target).map(|_| class_char(rng, c)).collect()
        }
    };
    v.truncate(max_len);
    v
}

/// list spec (see util::list_from_spec); never empty
pub fn gen_list_spec(rng: &mut Rng) -> String {
    // one in eight lists is grown with Extend (from one size, or from the default list) in arbitrary order
    if rng.chance(1, 8) {
        let n = rng.range(1, 6);
        let names = (0..n).map(|_| rng.pick(&CAT).name).collect::<Vec<_>>().join(",");
        return if rng.chance(1, 2) { format!("ext:{}", names) } else { format!("dflt+:{}", names) };
    }
    match rng.below(12) {
        0..=3 => "default".into(),
        4..=5 => "all".into(),
        6..=7 => rng.pick(&CAT).name.to_string(),
        8 => format!("{},{}", rng.pick(&CAT).name, rng.pick(&CAT).name),
        _ => {
            let n = rng.range(2, 10);
            (0..n).map(|_| rng.pick(&CAT).name).collect::<Vec<_>>().join(",")
        }
    }
}

/// non-empty mode mask; all six modes about a third of the time
pub fn gen_mask(rng: &mut Rng) -> u8 {
    match rng.below(6) {
        0 | 1 => 63,
        2 => 1 + rng.below(63) as u8,
        3 => (1 + rng.below(63) as u8) | 1,
        4 => (1 + rng.below(63) as u8) & !1u8,
        _ => 1u8 << rng.below(6),
    }
    .max(1)
}

/// representatives for small-scope exhaustive enumeration
pub const SMALL_ALPHABET: [u8; 8] = [b'1', b'A', b'a', b' ', b'*', b'!', 0x80, 0x1d];

/// the idx-th string of length <= max_len over SMALL_ALPHABET (idx in 0..count_small(max_len))
pub fn small_string(mut idx: usize, max_len: usize) -> Vec<u8> {
    let k = SMALL_ALPHABET.len();
    let mut len = 0;
    let mut block = 1;
    while len <= max_len {
        if idx < block {
            break;
        }
        idx -= block;
        block *= k;
        len += 1;
    }
    let mut v = vec![0u8; len];
    for i in (0..len).rev() {
        v[i] = SMALL_ALPHABET[idx % k];
        idx /= k;
    }
    v
}

pub fn count_small(max_len: usize) -> usize {
    let k = SMALL_ALPHABET.len();
    let mut t = 0;
    let mut b = 1;
    for _ in 0..=max_len {
        t += b;
        b *= k;
    }
    t
}

/// (prefix of lower-case ASCII) + (binary run with length near the 249/250 length-field edge) + (short mixed tail):
/// the total length sweeps through every residue relative to the symbol capacities
pub fn b256_three_part(p: usize, l: usize, t: usize) -> Vec<u8> {
    let mut v: Vec<u8> = (0..p).map(|i| b'a' + ((i * 7) % 26) as u8).collect();
    v.extend((0..l).map(|i| 0x80 + ((i * 29 + p) % 120) as u8));
    v.extend(b"a1234Zq9".iter().take(t));
    v
}

/// Three-part family: a Base256 run with a length around the 249/250 length-field edge, then a run of one
/// class of every length 0..=44, then a tail of 0..=2 characters of any class. Deterministic, enumerable.
pub const FAMILY_L: [usize; 8] = [249, 250, 251, 252, 253, 254, 255, 256];
pub const FAMILY_TAILS: usize = 1 + 2 * CORE.len();
pub fn family_count() -> usize {
    FAMILY_L.len() * 45 * CORE.len() * FAMILY_TAILS
}
pub fn family_case(i: usize) -> Vec<u8> {
    let mut x = i;
    let tail = x % FAMILY_TAILS;
    x /= FAMILY_TAILS;
    let cls = CORE[x % CORE.len()];
    x /= CORE.len();
    let m = x % 45;
    x /= 45;
    let l = FAMILY_L[x % FAMILY_L.len()];
    let mut rng = Rng::new(0xFA111, "three-part-family", i as u64);
    let mut v: Vec<u8> = (0..l).map(|k| 0x80 + ((k * 31 + m) % 120) as u8).collect();
    for _ in 0..m {
        v.push(class_char(&mut rng, cls));
    }
    if tail > 0 {
        let tc = CORE[(tail - 1) % CORE.len()];
        let tn = 1 + (tail - 1) / CORE.len();
        for _ in 0..tn {
            v.push(class_char(&mut rng, tc));
        }
    }
    v
}

/// End-of-data tail family: a run that one of the packed modes likes (length a multiple of its group size
/// or one/two off), followed by every tail of length 0..=3 over ten class representatives. Deterministic.
pub const TAIL_ALPHA: [u8; 10] = [b'1', b'5', b'A', b'm', b' ', b'*', b'.', b'~', 0x80, 0xE9];
pub const TAIL_BODIES: [&[u8]; 4] = [b"ABCDEFGHIJKLMNOPQRSTUVWXYZ0123456789ABCDEF", b"abcdefghijklmnopqrstuvwxyz0123456789abcdef", b"AB*CD>EF\rGH*IJ>KL\rMN*OP>QR\rST*UV>WX\rYZ*01>23", b"OR.DE/R:NO;AB-C1(X)Y+Z,=?@[!#$%&'\\]^<.A.C./:"];
pub fn tail_count() -> usize {
    1 + 10 + 100 + 1000
}
pub fn tail_family_count() -> usize {
    TAIL_BODIES.len() * 43 * tail_count()
}
pub fn tail_family_case(i: usize) -> Vec<u8> {
    let mut x = i;
    let mut t = x % tail_count();
    x /= tail_count();
    let len = x % 43;
    x /= 43;
    let body = TAIL_BODIES[x % TAIL_BODIES.len()];
    let mut v: Vec<u8> = body.iter().copied().cycle().take(len).collect();
    // decode t into a tail of length 0..=3
    let mut tl = 0;
    let mut block = 1;
    while t >= block {
        t -= block;
        block *= 10;
        tl += 1;
    }
    let mut tail = vec![0u8; tl];
    for k in (0..tl).rev() {
        tail[k] = TAIL_ALPHA[t % 10];
        t /= 10;
    }
    v.extend(tail);
    v
}

// ---- magnitude family (deterministic): one long class-pure run whose length sits on a power-of-two / byte boundary,
// optionally shifted by one leading character, followed by a short run of another class. Counters, look-aheads and
// length fields that are narrower than the input show here.
const MAG_ALPHABETS: [&[u8]; 6] = [b"7", b"ABCDEFGHIJKLMNOPQRSTUVWXYZ", b"abcdefghijklmnopqrstuvwxyz", b".,-/:+", b"*>\r ", &[0xE9, 0xFC, 0x80, 0xFF]];
const MAG_LENS: [usize; 16] = [127, 128, 129, 254, 255, 256, 257, 258, 510, 511, 512, 513, 1022, 1023, 1024, 1025];
const MAG_TAILS: [usize; 3] = [0, 1, 8];
pub fn magnitude_family_count() -> usize {
    6 * 6 * MAG_LENS.len() * MAG_TAILS.len() * 2
}
pub fn magnitude_family_case(mut i: usize) -> Vec<u8> {
    let lead = i % 2;
    i /= 2;
    let tail = MAG_TAILS[i % MAG_TAILS.len()];
    i /= MAG_TAILS.len();
    let len = MAG_LENS[i % MAG_LENS.len()];
    i /= MAG_LENS.len();
    let (a, b) = (MAG_ALPHABETS[i % 6], MAG_ALPHABETS[(i / 6) % 6]);
    let mut v = Vec::with_capacity(len + tail + 1);
    if lead == 1 {
        v.push(b'a');
    }
    for j in 0..len {
        v.push(a[j % a.len()]);
    }
    for j in 0..tail {
        v.push(b[(j + 2) % b.len()]);
    }
    v
}
