pub mod bitmaps;
pub mod frozen;
pub mod inputs;
pub mod rswords;
