pub mod bitmaps;
pub mod inputs;
pub mod rswords;
