//! Minimal JSON value + writer (no dependencies).
use std::collections::BTreeMap;
use std::fmt::Write;

#[derive(Clone, Debug)]
pub enum J {
    Null,
    Bool(bool),
    Int(i128),
    Str(String),
    Arr(Vec<J>),
    Obj(BTreeMap<String, J>),
}

impl J {
    pub fn obj() -> J {
        J::Obj(BTreeMap::new())
    }
    pub fn set(mut self, k: &str, v: J) -> J {
        if let J::Obj(m) = &mut self {
            m.insert(k.to_string(), v);
        }
        self
    }
    pub fn s(v: impl Into<String>) -> J {
        J::Str(v.into())
    }
    pub fn i(v: impl TryInto<i128>) -> J {
        J::Int(v.try_into().ok().unwrap_or(0))
    }
    pub fn render(&self) -> String {
        let mut o = String::new();
        self.write(&mut o);
        o
    }
    fn write(&self, o: &mut String) {
        match self {
            J::Null => o.push_str("null"),
            J::Bool(b) => o.push_str(if *b { "true" } else { "false" }),
            J::Int(i) => {
                let _ = write!(o, "{}", i);
            }
            J::Str(s) => esc(s, o),
            J::Arr(a) => {
                o.push('[');
                for (i, x) in a.iter().enumerate() {
                    if i > 0 {
                        o.push(',');
                    }
                    x.write(o);
                }
                o.push(']');
            }
            J::Obj(m) => {
                o.push('{');
                for (i, (k, v)) in m.iter().enumerate() {
                    if i > 0 {
                        o.push(',');
                    }
                    esc(k, o);
                    o.push(':');
                    v.write(o);
                }
                o.push('}');
            }
        }
    }
}

fn esc(s: &str, o: &mut String) {
    o.push('"');
    for c in s.chars() {
        match c {
            '"' => o.push_str("\\\""),
            '\\' => o.push_str("\\\\"),
            '\n' => o.push_str("\\n"),
            '\r' => o.push_str("\\r"),
            '\t' => o.push_str("\\t"),
            c if (c as u32) < 0x20 => {
                let _ = write!(o, "\\u{:04x}", c as u32);
            }
            c => o.push(c),
        }
    }
    o.push('"');
}

pub fn hex(b: &[u8]) -> String {
    let mut s = String::with_capacity(b.len() * 2);
    for x in b {
        let _ = write!(s, "{:02x}", x);
    }
    s
}

pub fn unhex(s: &str) -> Option<Vec<u8>> {
    if s.len() % 2 != 0 {
        return None;
    }
    (0..s.len() / 2).map(|i| u8::from_str_radix(&s[2 * i..2 * i + 2], 16).ok()).collect()
}
