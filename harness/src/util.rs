//! Glue between flat case fields and crate types.
use crate::refimpl::cat::{self, Row, CAT};
use datamatrix::{EncodationType, SymbolList, SymbolSize};
use flagset::FlagSet;

/// list spec: "default" | "all" | "empty" | comma separated variant names (order and duplicates kept)
pub fn list_from_spec(spec: &str) -> Option<SymbolList> {
    match spec {
        "default" => Some(SymbolList::default()),
        "all" => Some(SymbolList::all()),
        "empty" => Some(SymbolList::with_whitelist(Vec::<SymbolSize>::new())),
        s if s.starts_with("ext:") => {
            // grown one size at a time with Extend, in the order given
            let mut names = s[4..].split(',');
            let mut l: SymbolList = cat::by_name(names.next()?)?.size.into();
            for n in names {
                l.extend(core::iter::once(cat::by_name(n)?.size));
            }
            Some(l)
        }
        s if s.starts_with("dflt+:") => {
            let mut l = SymbolList::default();
            let mut v = Vec::new();
            for n in s[6..].split(',') {
                v.push(cat::by_name(n)?.size);
            }
            l.extend(v);
            Some(l)
        }
        s => {
            let mut v = Vec::new();
            for n in s.split(',') {
                v.push(cat::by_name(n)?.size);
            }
            Some(SymbolList::with_whitelist(v))
        }
    }
}

/// the R-CAT rows a list spec denotes (distinct), independent of the crate
pub fn rows_from_spec(spec: &str) -> Vec<&'static Row> {
    match spec {
        "default" => CAT.iter().filter(|r| r.iso16022).collect(),
        "all" => CAT.iter().collect(),
        "empty" => vec![],
        s => {
            let mut v: Vec<&'static Row> = Vec::new();
            let s = if let Some(rest) = s.strip_prefix("ext:") {
                rest
            } else if let Some(rest) = s.strip_prefix("dflt+:") {
                v.extend(CAT.iter().filter(|r| r.iso16022));
                rest
            } else {
                s
            };
            for n in s.split(',') {
                if let Some(r) = cat::by_name(n) {
                    if !v.iter().any(|x| x.name == r.name) {
                        v.push(r);
                    }
                }
            }
            v
        }
    }
}

/// sorted, deduplicated capacities of a list spec
pub fn caps_from_spec(spec: &str) -> Vec<usize> {
    let mut c: Vec<usize> = rows_from_spec(spec).iter().map(|r| r.data).collect();
    c.sort();
    c.dedup();
    c
}

pub const MODE_NAMES: [&str; 6] = ["Ascii", "C40", "Text", "X12", "Edifact", "Base256"];

/// mode mask bits: 1 Ascii, 2 C40, 4 Text, 8 X12, 16 Edifact, 32 Base256 (the harness's own numbering)
pub fn modes_from_mask(mask: u8) -> FlagSet<EncodationType> {
    let mut f: FlagSet<EncodationType> = FlagSet::default();
    if mask & 1 != 0 {
        f |= EncodationType::Ascii;
    }
    if mask & 2 != 0 {
        f |= EncodationType::C40;
    }
    if mask & 4 != 0 {
        f |= EncodationType::Text;
    }
    if mask & 8 != 0 {
        f |= EncodationType::X12;
    }
    if mask & 16 != 0 {
        f |= EncodationType::Edifact;
    }
    if mask & 32 != 0 {
        f |= EncodationType::Base256;
    }
    f
}

pub fn mode_bit(t: EncodationType) -> u8 {
    match t {
        EncodationType::Ascii => 1,
        EncodationType::C40 => 2,
        EncodationType::Text => 4,
        EncodationType::X12 => 8,
        EncodationType::Edifact => 16,
        EncodationType::Base256 => 32,
    }
}

pub fn mask_names(mask: u8) -> String {
    let mut v = Vec::new();
    for i in 0..6 {
        if mask & (1 << i) != 0 {
            v.push(MODE_NAMES[i]);
        }
    }
    v.join("|")
}

pub fn printable(b: &[u8]) -> String {
    let mut s = String::new();
    for c in b.iter().take(80) {
        if (0x20..0x7f).contains(c) && *c != b'\\' {
            s.push(*c as char);
        } else {
            s.push_str(&format!("\\x{:02x}", c));
        }
    }
    if b.len() > 80 {
        s.push_str(&format!("...(+{})", b.len() - 80));
    }
    s
}
