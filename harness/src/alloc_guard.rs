//! Memory monitor: a counting wrapper around the system allocator. When the live heap of the process
//! exceeds the budget (default 3 GiB, `--mem-mb`), the case in flight is written out like a hang and the
//! process ends with exit code 3; the driver confirms by replaying that case alone. An allocation the
//! system refuses is handled the same way. This turns "the encoder allocates without bound" into an
//! observed, attributable event instead of an abort that escapes `catch_unwind` (or an OOM kill).
use std::alloc::{GlobalAlloc, Layout, System};
use std::sync::atomic::{AtomicBool, AtomicUsize, Ordering};

pub struct Guard;

static LIVE: AtomicUsize = AtomicUsize::new(0);
static PEAK: AtomicUsize = AtomicUsize::new(0);
static LIMIT: AtomicUsize = AtomicUsize::new(3 << 30);
static TRIPPED: AtomicBool = AtomicBool::new(false);

pub fn set_limit_mb(mb: usize) {
    LIMIT.store(mb << 20, Ordering::Relaxed);
}
pub fn peak_bytes() -> usize {
    PEAK.load(Ordering::Relaxed)
}

#[cold]
fn trip(requested: usize) -> ! {
    // allow the report itself to allocate
    LIMIT.store(usize::MAX, Ordering::Relaxed);
    if TRIPPED.swap(true, Ordering::SeqCst) {
        // another thread is already reporting
        loop {
            std::thread::sleep(std::time::Duration::from_secs(1));
        }
    }
    crate::ctx::memory_exit(LIVE.load(Ordering::Relaxed), requested)
}

unsafe impl GlobalAlloc for Guard {
    unsafe fn alloc(&self, l: Layout) -> *mut u8 {
        let live = LIVE.fetch_add(l.size(), Ordering::Relaxed) + l.size();
        if live > LIMIT.load(Ordering::Relaxed) {
            trip(l.size());
        }
        if live > PEAK.load(Ordering::Relaxed) {
            PEAK.store(live, Ordering::Relaxed);
        }
        let p = System.alloc(l);
        if p.is_null() {
            trip(l.size());
        }
        p
    }
    unsafe fn dealloc(&self, p: *mut u8, l: Layout) {
        LIVE.fetch_sub(l.size(), Ordering::Relaxed);
        System.dealloc(p, l)
    }
    unsafe fn alloc_zeroed(&self, l: Layout) -> *mut u8 {
        let live = LIVE.fetch_add(l.size(), Ordering::Relaxed) + l.size();
        if live > LIMIT.load(Ordering::Relaxed) {
            trip(l.size());
        }
        if live > PEAK.load(Ordering::Relaxed) {
            PEAK.store(live, Ordering::Relaxed);
        }
        let p = System.alloc_zeroed(l);
        if p.is_null() {
            trip(l.size());
        }
        p
    }
    unsafe fn realloc(&self, p: *mut u8, l: Layout, new_size: usize) -> *mut u8 {
        if new_size > l.size() {
            let live = LIVE.fetch_add(new_size - l.size(), Ordering::Relaxed) + (new_size - l.size());
            if live > LIMIT.load(Ordering::Relaxed) {
                trip(new_size);
            }
            if live > PEAK.load(Ordering::Relaxed) {
                PEAK.store(live, Ordering::Relaxed);
            }
        } else {
            LIVE.fetch_sub(l.size() - new_size, Ordering::Relaxed);
        }
        let q = System.realloc(p, l, new_size);
        if q.is_null() {
            trip(new_size);
        }
        q
    }
}
